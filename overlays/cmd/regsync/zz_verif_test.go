//go:debug asynctimerchan=0
package main

import (
	"context"
	"fmt"
	"net/http"
	"os"
	"path/filepath"
	"regexp"
	"sort"
	"strings"
	"testing"
	"time"

	"github.com/regclient/regclient"
	"github.com/regclient/regclient/internal/verif/core"
	"github.com/regclient/regclient/internal/verif/gen"
	"github.com/regclient/regclient/internal/verif/oracle"
	"github.com/regclient/regclient/internal/verif/regmodel"
	"github.com/regclient/regclient/internal/verif/simnet"
	"github.com/regclient/regclient/internal/verif/simrt"
	"github.com/regclient/regclient/scheme/reg"
	"github.com/regclient/regclient/types/manifest"
)

// C18: after a sync run every selected source tag is mirrored; nothing else is touched.
// The real regsync command tree runs in-process against registry models.

func TestVerif(t *testing.T) { core.Main(t) }

func init() {
	// Liveness: the workload is fault-free; a sync run that never returns has mirrored nothing, and the steps of a
	// run share a throttle (C17's subject as regsync uses it: parallel limit, released and re-acquired around the
	// rate-limit delay), so a run that hangs is a violation here
	core.Register(&core.Prop{ID: "C18", Run: runC18, MaxSteps: 600000, Liveness: true, MaxIdle: 100 * time.Hour})
}

type c18Entry struct {
	Type       string   `json:"type"`
	Source     string   `json:"source"`
	Target     string   `json:"target"`
	Allow      []string `json:"allow,omitempty"`
	Deny       []string `json:"deny,omitempty"`
	RAllow     []string `json:"repo_allow,omitempty"`
	RDeny      []string `json:"repo_deny,omitempty"`
	Platform   string   `json:"platform,omitempty"`
	Media      []string `json:"mediaTypes,omitempty"`
	MediaEmpty bool     `json:"mediaTypes_written_as_empty_list,omitempty"` // "mediaTypes: []": means the defaults, like an omitted list
	Backup     string   `json:"backup,omitempty"`
	Refs       bool     `json:"referrers,omitempty"`
	DTags      bool     `json:"digestTags,omitempty"`
	Force      bool     `json:"forceRecursive,omitempty"`
	Hoisted    bool     `json:"options_written_in_defaults,omitempty"` // mediaTypes, backup, referrers, digestTags, forceRecursive come from the defaults section
}

func (en c18Entry) yaml() string {
	var sb strings.Builder
	fmt.Fprintf(&sb, "  - source: %s\n    target: %s\n    type: %s\n", en.Source, en.Target, en.Type)
	list := func(name string, l []string, indent string) {
		if len(l) > 0 {
			fmt.Fprintf(&sb, "%s%s:\n", indent, name)
			for _, x := range l {
				fmt.Fprintf(&sb, "%s  - %q\n", indent, x)
			}
		}
	}
	if len(en.Allow)+len(en.Deny) > 0 {
		sb.WriteString("    tags:\n")
		list("allow", en.Allow, "      ")
		list("deny", en.Deny, "      ")
	}
	if len(en.RAllow)+len(en.RDeny) > 0 {
		sb.WriteString("    repos:\n")
		list("allow", en.RAllow, "      ")
		list("deny", en.RDeny, "      ")
	}
	if en.Platform != "" {
		fmt.Fprintf(&sb, "    platform: %s\n", en.Platform)
	}
	if !en.Hoisted {
		sb.WriteString(en.optionsYAML("    "))
	}
	return sb.String()
}

// optionsYAML renders the options that may also be given once in the defaults section.
func (en c18Entry) optionsYAML(indent string) string {
	var sb strings.Builder
	if len(en.Media) > 0 {
		fmt.Fprintf(&sb, "%smediaTypes:\n", indent)
		for _, x := range en.Media {
			fmt.Fprintf(&sb, "%s  - %q\n", indent, x)
		}
	}
	if en.MediaEmpty && len(en.Media) == 0 {
		fmt.Fprintf(&sb, "%smediaTypes: []\n", indent)
	}
	if en.Backup != "" {
		fmt.Fprintf(&sb, "%sbackup: %q\n", indent, en.Backup)
	}
	if en.Refs {
		fmt.Fprintf(&sb, "%sreferrers: true\n", indent)
	}
	if en.DTags {
		fmt.Fprintf(&sb, "%sdigestTags: true\n", indent)
	}
	if en.Force {
		fmt.Fprintf(&sb, "%sforceRecursive: true\n", indent)
	}
	return sb.String()
}

// filter is the documented allow-then-deny selection, reimplemented: anchored regular expressions.
func c18Filter(allow, deny []string, in []string) []string {
	var out []string
	for _, s := range in {
		ok := len(allow) == 0
		for _, a := range allow {
			if regexp.MustCompile("^(?:" + a + ")$").MatchString(s) {
				ok = true
			}
		}
		for _, d := range deny {
			if regexp.MustCompile("^(?:" + d + ")$").MatchString(s) {
				ok = false
			}
		}
		if ok {
			out = append(out, s)
		}
	}
	return out
}

var c18DefaultMedia = []string{gen.MTDockerMan, gen.MTDockerList, gen.MTOCIManifest, gen.MTOCIIndex}

type regSnap struct {
	tags map[string]string // repo:tag -> digest
	mans map[string]bool   // repo@digest
	blob map[string]bool
}

func snap(r *regmodel.Reg) regSnap {
	s := regSnap{tags: map[string]string{}, mans: map[string]bool{}, blob: map[string]bool{}}
	for rn, rp := range r.Repos {
		for t, d := range rp.Tags {
			s.tags[rn+":"+t] = d
		}
		for d := range rp.Manifests {
			s.mans[rn+"@"+d] = true
		}
		for d := range rp.Blobs {
			s.blob[rn+"@"+d] = true
		}
	}
	return s
}

func runC18(e *core.Env) {
	// regsync keeps a process-wide cache of manifest lists; every run starts from a fresh process state
	manifestCache.manifests = map[string]manifest.Manifest{}
	net := simnet.New(e.Tape)
	src, tgt := regmodel.New("src.test"), regmodel.New("tgt.test")
	net.Hosts["src.test"], net.Hosts["tgt.test"] = src, tgt
	src.K.Referrers = e.Choose("gen", 2, "srcapi") == 0
	tgt.K.Referrers = e.Choose("gen", 2, "tgtapi") == 0
	src.K.TagPage = []int{0, 2}[e.Choose("gen", 2, "tagpage")]
	regclient.VerifRegOpts = func() []reg.Opts {
		return []reg.Opts{reg.WithHTTPClient(&http.Client{Transport: net})}
	}
	defer func() { regclient.VerifRegOpts = nil }()
	g := gen.New(e.Tape)
	g.MaxBlob = 60
	g.NoExt = true
	// source population: two repositories, a pool of images, tags drawn from a pool
	tagPool := []string{"v1", "v2", "v1.1", "latest", "dev", "rc1"}
	repos := []string{"proj/app", "proj/lib", "other/tool"}
	var imgs []*gen.Graph
	for i := 0; i < 4; i++ {
		imgs = append(imgs, g.Graph(gen.Opts{NoExternal: true}))
	}
	byDigest := map[string]*gen.Graph{}
	for _, gr := range imgs {
		byDigest[gr.Root.Digest] = gr
	}
	for _, rn := range repos {
		for _, t := range tagPool {
			if e.Choose("gen", 2, "has") == 1 {
				imgs[e.Choose("gen", len(imgs), "img")].Install(src, rn, t)
			}
		}
	}
	// target population: some tags already there (same or stale), some with no source counterpart, an unrelated repository
	stale := g.Image(false)
	staleG := &gen.Graph{Root: stale, DigestTags: map[string]*gen.Node{}}
	for _, rn := range []string{"mirror/app", "mirror/lib", "all/proj/app", "all/proj/lib", "all/other/tool"} {
		for _, t := range tagPool {
			switch e.Choose("gen", 5, "pre") {
			case 1:
				staleG.Install(tgt, rn, t)
			case 2:
				imgs[e.Choose("gen", len(imgs), "img")].InstallPlain(tgt, rn, t)
			}
		}
		if e.Choose("gen", 2, "extra") == 1 {
			staleG.Install(tgt, rn, "only-at-target")
		}
	}
	staleG.Install(tgt, "unrelated/repo", "keep")
	// configuration
	var entries []c18Entry
	allowPool := [][]string{nil, {"v.*"}, {"v1", "latest"}, {"v[0-9]+"}, {".*"}}
	denyPool := [][]string{nil, {"v2"}, {"dev", "rc.*"}, {"v1\\..*"}}
	mk := func(typ, s, t string) c18Entry {
		en := c18Entry{Type: typ, Source: s, Target: t}
		if typ != "image" {
			en.Allow = allowPool[e.Choose("gen", len(allowPool), "allow")]
			en.Deny = denyPool[e.Choose("gen", len(denyPool), "deny")]
		}
		switch e.Choose("gen", 8, "platform") {
		case 5, 6:
			en.Platform = "linux/amd64"
		case 7:
			en.Platform = "linux/s390x" // a platform most generated indexes do not have
		}
		switch e.Choose("gen", 5, "media") {
		case 4:
			en.MediaEmpty = true
		case 2:
			en.Media = []string{gen.MTOCIManifest, gen.MTOCIIndex}
		case 3:
			en.Media = []string{gen.MTDockerMan, gen.MTDockerList, gen.MTOCIManifest, gen.MTOCIIndex, gen.MTDockerSchema1}
		}
		switch e.Choose("gen", 4, "backup") {
		case 2:
			en.Backup = "old-{{.Ref.Tag}}"
		case 3:
			en.Backup = "tgt.test/backups/" + strings.Replace(t, "tgt.test/", "", 1) + ":{{.Ref.Tag}}"
			if typ == "image" {
				en.Backup = "tgt.test/backups/img:{{.Ref.Tag}}"
			}
		}
		en.Refs = e.Choose("gen", 3, "refs") == 2
		en.DTags = e.Choose("gen", 4, "dtags") == 3
		en.Force = e.Choose("gen", 5, "force") == 4
		return en
	}
	switch e.Choose("gen", 4, "layout") {
	case 0:
		entries = append(entries, mk("repository", "src.test/proj/app", "tgt.test/mirror/app"))
	case 1:
		entries = append(entries, mk("repository", "src.test/proj/app", "tgt.test/mirror/app"), mk("repository", "src.test/proj/lib", "tgt.test/mirror/lib"))
	case 2:
		t := tagPool[e.Choose("gen", len(tagPool), "imgtag")]
		entries = append(entries, mk("image", "src.test/proj/app:"+t, "tgt.test/mirror/app:"+t), mk("repository", "src.test/proj/lib", "tgt.test/mirror/lib"))
	case 3:
		en := mk("registry", "src.test", "tgt.test/all")
		en.RAllow = [][]string{nil, {"proj/.*"}, {".*"}}[e.Choose("gen", 3, "rallow")]
		en.RDeny = [][]string{nil, {".*/lib"}}[e.Choose("gen", 2, "rdeny")]
		entries = append(entries, en)
	}
	// one source repository may be broken for good (its blobs answer 404, as after a botched garbage collection on the
	// source): whatever cannot be copied then, the run must not report success while a selected tag is not mirrored
	if e.Choose("gen", 6, "brokenrepo") == 5 {
		broken := "/v2/" + repos[e.Choose("gen", 2, "whichbroken")] + "/blobs/"
		net.Hook = func(x *simnet.Exchange) *simnet.Fault {
			if x.Host == "src.test" && x.Method == "GET" && strings.HasPrefix(x.Path, broken) {
				return &simnet.Fault{Kind: simnet.F404}
			}
			return nil
		}
		e.Probe("source-repository-with-unreadable-blobs")
	}
	parallel := e.Choose("gen", 5, "parallel")
	var cfg strings.Builder
	cfg.WriteString("version: 1\ndefaults:\n  skipDockerConfig: true\n")
	// the source may announce a pull rate limit (as Docker Hub does) that is below the configured minimum at first
	// and recovers with time: regsync then delays the step, giving up its throttle slot meanwhile
	rateMin := 0
	if e.Choose("gen", 3, "ratelimit") == 2 {
		rateMin = 2 + e.Choose("gen", 4, "ratemin")
		src.K.RateLimit, src.K.RateRemain0, src.K.RateRecover = 100, e.Choose("gen", rateMin+2, "rate0"), time.Duration(1+e.Choose("gen", 10, "raterec"))*time.Minute
		fmt.Fprintf(&cfg, "  ratelimit:\n    min: %d\n    retry: %dm\n", rateMin, 5+e.Choose("gen", 10, "rateretry"))
		if src.K.RateRemain0 < rateMin {
			e.Probe("source-rate-limit-below-minimum-at-start")
		}
	}
	// the options of the first entry may be written once in the defaults section instead: every entry then inherits them
	if e.Choose("gen", 4, "hoist") == 3 {
		first := entries[0]
		if strings.HasPrefix(first.Backup, "tgt.test/backups/") {
			first.Backup = "old-{{.Ref.Tag}}" // (a full backup reference names one repository; as a default only the tag form makes sense)
		}
		for i := range entries {
			entries[i].Media, entries[i].MediaEmpty, entries[i].Backup = first.Media, first.MediaEmpty, first.Backup
			entries[i].Refs, entries[i].DTags, entries[i].Force = first.Refs, first.DTags, first.Force
			entries[i].Hoisted = true
		}
		cfg.WriteString(first.optionsYAML("  "))
		e.Probe("options-in-defaults-section")
	}
	fmt.Fprintf(&cfg, "  parallel: %d\nsync:\n", parallel)
	for _, en := range entries {
		cfg.WriteString(en.yaml())
	}
	dir := e.TempDir()
	cfgFile := filepath.Join(dir, "regsync.yml")
	if err := os.WriteFile(cfgFile, []byte(cfg.String()), 0o644); err != nil {
		panic(err)
	}
	rounds := 1 + e.Choose("gen", 2, "rounds")
	checkFirst := e.Choose("gen", 3, "check") == 2
	sample := map[string]any{"ratelimit_min": rateMin, "entries": entries, "parallel": parallel, "rounds": rounds, "check_run_first": checkFirst,
		"source_tags": snapTags(src), "target_tags_before": snapTags(tgt)}
	e.SetCase(fmt.Sprintf("%v|%d|%d|%v|%v", entries, parallel, rounds, snapTags(src), snapTags(tgt)), true, sample)

	run := func(sub string) error {
		cmd, _ := NewRootCmd()
		cmd.SetArgs([]string{sub, "-c", cfgFile, "-v", "error"})
		cmd.SetOut(ioDiscard{})
		cmd.SetErr(ioDiscard{})
		return cmd.ExecuteContext(context.Background())
	}
	// a check-only run writes nothing
	if checkFirst {
		before := len(tgt.Journal) + len(src.Journal)
		w0 := writeCount(net)
		err := run("check")
		simrt.Event("regsync check -> %v", err)
		if len(tgt.Journal)+len(src.Journal) != before || writeCount(net) != w0 {
			e.Violation("check-writes", "check-run-wrote", "regsync check sent %d state-changing requests", writeCount(net)-w0)
		}
		e.Probe("check-run")
	}
	for round := 0; round < rounds; round++ {
		if round > 0 {
			// source tags move between runs
			for _, rn := range repos[:2] {
				for _, t := range tagPool {
					if e.Choose("gen", 3, "move") == 2 {
						imgs[e.Choose("gen", len(imgs), "img")].Install(src, rn, t)
					}
				}
			}
			e.Probe("second-run-after-tags-moved")
		}
		pre := snap(tgt)
		preSrc := snap(src)
		// backup ordering is judged at the instant the overwriting tag write is accepted
		type exp struct {
			srcRepo, tag, tgtRepo, want string
			alt                         string // the source tag's own digest (accepted as well when a platform is configured)
			en                          c18Entry
		}
		var expects []exp
		var lacking []string          // selected tags whose index lacks the configured platform
		selected := map[string]bool{} // tgt repo:tag selected
		backupNames := map[string]string{}
		for _, en := range entries {
			var pairs [][3]string // srcRepo, tag, tgtRepo
			switch en.Type {
			case "image":
				s := strings.TrimPrefix(en.Source, "src.test/")
				t := strings.TrimPrefix(en.Target, "tgt.test/")
				pairs = append(pairs, [3]string{s[:strings.LastIndex(s, ":")], s[strings.LastIndex(s, ":")+1:], t[:strings.LastIndex(t, ":")]})
			case "repository":
				sr := strings.TrimPrefix(en.Source, "src.test/")
				var tl []string
				if rp := src.Repos[sr]; rp != nil {
					for t := range rp.Tags {
						tl = append(tl, t)
					}
				}
				sort.Strings(tl)
				for _, t := range c18Filter(en.Allow, en.Deny, tl) {
					pairs = append(pairs, [3]string{sr, t, strings.TrimPrefix(en.Target, "tgt.test/")})
				}
			case "registry":
				var rl []string
				for rn := range src.Repos {
					rl = append(rl, rn)
				}
				sort.Strings(rl)
				for _, rn := range c18Filter(en.RAllow, en.RDeny, rl) {
					var tl []string
					for t := range src.Repos[rn].Tags {
						tl = append(tl, t)
					}
					sort.Strings(tl)
					for _, t := range c18Filter(en.Allow, en.Deny, tl) {
						pairs = append(pairs, [3]string{rn, t, "all/" + rn})
					}
				}
			}
			for _, p := range pairs {
				rp := src.Repos[p[0]]
				if rp == nil {
					continue
				}
				d, ok := rp.Tags[p[1]]
				if !ok {
					continue
				}
				// digest-tags and fallback tags are not images the user selected by name; they may be
				// selected by a broad filter, and are then ordinary tags
				mt := rp.Manifests[d].MediaType
				media := en.Media
				if len(media) == 0 {
					media = c18DefaultMedia
				}
				okMT := false
				for _, m := range media {
					if m == mt {
						okMT = true
					}
				}
				if !okMT {
					continue // the media type list is an include filter: such a tag is left alone
				}
				want := d
				if en.Platform != "" && (mt == gen.MTOCIIndex || mt == gen.MTDockerList) {
					want = ""
					if gr := byDigest[d]; gr != nil {
						for _, c := range gr.Root.Children {
							if c.Platform != nil && c.Platform.OS == "linux" && c.Platform.Architecture == strings.TrimPrefix(en.Platform, "linux/") {
								want = c.Digest
								break
							}
						}
					}
					if want == "" {
						// no such platform in a selected tag: the tag cannot be mirrored, so the run cannot report success -
						// unless the target already holds the whole index under that tag, which regsync leaves alone
						if rp := tgt.Repos[p[2]]; rp == nil || rp.Tags[p[1]] != d {
							lacking = append(lacking, p[0]+":"+p[1])
						}
						continue
					}
				}
				expects = append(expects, exp{p[0], p[1], p[2], want, d, en})
				selected[p[2]+":"+p[1]] = true
				if en.Backup != "" {
					bn := strings.Replace(en.Backup, "{{.Ref.Tag}}", p[1], -1)
					if strings.ContainsAny(bn, ":/") {
						bn = strings.TrimPrefix(bn, "tgt.test/")
					} else {
						bn = p[2] + ":" + bn
					}
					backupNames[p[2]+":"+p[1]] = bn
				}
			}
		}
		tgt.OnWrite = func(w regmodel.Write) {
			if w.Kind != "tag" {
				return
			}
			key := w.Repo + ":" + w.Tag
			old, had := pre.tags[key]
			bn, hasB := backupNames[key]
			if had && old != w.Digest && hasB {
				i := strings.LastIndex(bn, ":")
				cur := ""
				if rp := tgt.Repos[bn[:i]]; rp != nil {
					cur = rp.Tags[bn[i+1:]]
				}
				if cur != old {
					e.Violation("backup", "overwritten-before-backup", "tag %s was overwritten (was %s) while the backup name %s resolves to %q", key, short(old), bn, short(cur))
				}
				e.Probe("backup-checked")
			}
		}
		err := run("once")
		tgt.OnWrite = nil
		simrt.Event("regsync once (round %d) -> %v", round, err)
		if err != nil {
			e.Probe("run-reported-error")
			if len(lacking) > 0 {
				e.Probe("run-failed-for-missing-platform")
			}
			// the property is conditional on a successful run
			continue
		}
		e.Probe("run-ok")
		if len(lacking) > 0 {
			e.Violation("mirrored", "success-although-platform-missing", "the run reported success although the selected tag(s) %v have no image for the configured platform and so cannot have been mirrored", lacking)
		}
		post := snap(tgt)
		// every selected source tag is mirrored, complete
		for _, x := range expects {
			got := post.tags[x.tgtRepo+":"+x.tag]
			if got == x.alt && got != x.want {
				// "the same digest as at the source (or the digest of the configured platform)": a target that
				// already holds the whole index is left alone
				e.Probe("platform-entry-holds-whole-index")
				continue
			}
			if got != x.want {
				e.Violation("mirrored", "selected-tag-not-mirrored", "the run reported success but %s:%s resolves to %q at the target, source %s:%s is %s (entry %s %s)", x.tgtRepo, x.tag, short(got), x.srcRepo, x.tag, short(x.want), x.en.Type, x.en.Source)
				continue
			}
			e.Probe("selected-tag-checked")
			wo := oracle.WalkOpts{Referrers: x.en.Refs, DigestTags: x.en.DTags}
			pm := pre.mans
			wo.Trusted = func(d string, root bool) bool {
				if root {
					return pre.tags[x.tgtRepo+":"+x.tag] == d
				}
				return pm[x.tgtRepo+"@"+d]
			}
			if x.en.Force {
				wo.Trusted = nil // a recursive copy completes what the target already held
				e.Probe("force-recursive-entry")
			}
			needs, _, _ := oracle.Closure(oracle.RegStore{Reg: src, Repo: x.srcRepo}, x.want, wo)
			if miss := oracle.CheckPresent(oracle.RegStore{Reg: src, Repo: x.srcRepo}, oracle.RegStore{Reg: tgt, Repo: x.tgtRepo}, needs); len(miss) > 0 {
				e.Violation("mirrored", "mirrored-image-incomplete", "%s:%s was mirrored but %s", x.tgtRepo, x.tag, strings.Join(miss, "; "))
			}
		}
		// nothing else is touched: tags not selected keep their digest; nothing that existed is gone
		allowedNew := func(key string) bool {
			if selected[key] {
				return true
			}
			for _, bn := range backupNames {
				if bn == key {
					return true
				}
			}
			t := key[strings.LastIndex(key, ":")+1:]
			return strings.HasPrefix(t, "sha256-") || strings.HasPrefix(t, "sha512-") // referrers fallback tags / digest-tags the options ask for
		}
		for _, key := range sortedKeys(pre.tags) {
			d := pre.tags[key]
			if post.tags[key] != d && !allowedNew(key) {
				e.Violation("untouched", "unselected-tag-changed", "target tag %s was not selected by any entry, yet it changed from %s to %q", key, short(d), short(post.tags[key]))
			}
		}
		for _, key := range sortedKeys(post.tags) {
			d := post.tags[key]
			if _, had := pre.tags[key]; !had && !allowedNew(key) {
				e.Violation("untouched", "unselected-tag-created", "target tag %s (-> %s) appeared although no entry selects it", key, short(d))
			}
		}
		for key := range pre.mans {
			if !post.mans[key] {
				e.Violation("untouched", "manifest-removed", "manifest %s was removed from the target", key)
			}
		}
		for key := range pre.blob {
			if !post.blob[key] {
				e.Violation("untouched", "blob-removed", "blob %s was removed from the target", key)
			}
		}
		// the source is never written
		ps := snap(src)
		if len(ps.tags) != len(preSrc.tags) || len(ps.mans) != len(preSrc.mans) {
			e.Violation("untouched", "source-modified", "the source registry was modified by the sync")
		}
	}
}

func sortedKeys(m map[string]string) []string {
	var ks []string
	for k := range m {
		ks = append(ks, k)
	}
	sort.Strings(ks)
	return ks
}

func snapTags(r *regmodel.Reg) map[string]string {
	out := map[string]string{}
	for rn, rp := range r.Repos {
		for t, d := range rp.Tags {
			if !strings.HasPrefix(t, "sha256-") {
				out[rn+":"+t] = short(d)
			}
		}
	}
	return out
}

func writeCount(n *simnet.Net) int {
	c := 0
	for _, x := range n.Log {
		if simnet.IsWrite(x.Method) {
			c++
		}
	}
	return c
}

func short(d string) string {
	if len(d) > 19 {
		return d[:19]
	}
	return d
}

type ioDiscard struct{}

func (ioDiscard) Write(p []byte) (int, error) { return len(p), nil }
