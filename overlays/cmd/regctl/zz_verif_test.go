//go:debug asynctimerchan=0
package main

import (
	"archive/tar"
	"bytes"
	"compress/gzip"
	"context"
	"encoding/json"
	"fmt"
	"net/http"
	"os"
	"path/filepath"
	"sort"
	"strings"
	"testing"

	"github.com/opencontainers/go-digest"

	"github.com/regclient/regclient"
	"github.com/regclient/regclient/internal/verif/core"
	"github.com/regclient/regclient/internal/verif/gen"
	"github.com/regclient/regclient/internal/verif/regmodel"
	"github.com/regclient/regclient/internal/verif/simnet"
	"github.com/regclient/regclient/internal/verif/simos"
	"github.com/regclient/regclient/internal/verif/simrt"
	"github.com/regclient/regclient/pkg/archive"
	"github.com/regclient/regclient/scheme/reg"
	"github.com/regclient/regclient/types/descriptor"
	"github.com/regclient/regclient/types/platform"
	"github.com/regclient/regclient/types/ref"
)

// C20: remote or archive content never causes writes outside the chosen directory.
// Input-driven; the disk seam audits every mutating call.

func TestVerifC20(t *testing.T) { core.Main(t) }

func init() {
	core.Register(&core.Prop{ID: "C20", Run: runC20, MaxSteps: 300000})
}

var c20Evil = []string{"../evil", "../../evil", "/abs/evil", "a/../../evil", "..", ".", "", "a/b/../../../evil", "evil\x00name", strings.Repeat("L", 300), "dir/", "dir/../../evil/", "existing.txt",
	"..\\evil", "C:\\evil", "./../evil", "a/./../../evil", "//double//evil", "a/../../../../../../../../tmp/verif-c20-escape", "normal.txt", "sub/dir/file.txt", "...", "..../evil", " ../evil", "../evil ",
	// names built around the designated directory's own name ("chosen"): a sibling that shares its prefix
	"../chosen-cache/payload.sh", "../chosen.sh", "../chosenX", "../chosen-cache/", "a/../../chosen2/evil"}

// names and link targets out of which chains can form: each link looks harmless by its text (it names something
// inside the directory), the escape only exists once an earlier link is followed
var c20ChainNames = []string{"a", "b", "c", "d/l", "b/escaped.txt", "c/escaped.txt", "a/b/escaped.txt", "d/l/escaped.txt", "c/sentinel.txt", "b/sibling/evil"}
var c20ChainLinks = []string{".", "a/..", "b/..", "a", "b", "..", "../a/..", "d/..", "c/.."}

func c20Tar(e *core.Env, gz bool) ([]byte, []string) {
	var buf bytes.Buffer
	tw := tar.NewWriter(&buf)
	var names []string
	chains := e.Choose("gen", 3, "chains") == 2
	for i, n := 0, 1+e.Choose("gen", 5, "nent"); i < n; i++ {
		name := c20Evil[e.Choose("gen", len(c20Evil), "tarname")]
		link := c20Evil[e.Choose("gen", len(c20Evil), "link")]
		typ := e.Choose("gen", 6, "enttype")
		if chains {
			// links first, files through them afterwards
			name = c20ChainNames[e.Choose("gen", len(c20ChainNames), "chainname")]
			link = c20ChainLinks[e.Choose("gen", len(c20ChainLinks), "chainlink")]
			if i < n-1 && i < 3 {
				typ = 1 + e.Choose("gen", 2, "chaintype")
			} else {
				typ = 3
			}
		}
		names = append(names, name)
		switch typ {
		case 0:
			_ = tw.WriteHeader(&tar.Header{Name: name, Typeflag: tar.TypeDir, Mode: 0o755})
		case 1:
			names[len(names)-1] = name + "->" + link
			_ = tw.WriteHeader(&tar.Header{Name: name, Typeflag: tar.TypeSymlink, Linkname: link, Mode: 0o777})
		case 2:
			names[len(names)-1] = name + "=>" + link
			_ = tw.WriteHeader(&tar.Header{Name: name, Typeflag: tar.TypeLink, Linkname: link, Mode: 0o644})
		default:
			data := []byte("content of " + fmt.Sprint(i))
			_ = tw.WriteHeader(&tar.Header{Name: name, Typeflag: tar.TypeReg, Size: int64(len(data)), Mode: 0o644})
			_, _ = tw.Write(data)
		}
	}
	_ = tw.Close()
	if !gz {
		return buf.Bytes(), names
	}
	var zb bytes.Buffer
	zw := gzip.NewWriter(&zb)
	_, _ = zw.Write(buf.Bytes())
	_ = zw.Close()
	return zb.Bytes(), names
}

func listTree(dir string) map[string]string {
	out := map[string]string{}
	_ = filepath.Walk(dir, func(p string, fi os.FileInfo, err error) error {
		if err != nil {
			return nil
		}
		rel := strings.TrimPrefix(p, dir)
		if fi.IsDir() {
			out[rel+"/"] = "dir"
		} else {
			b, _ := os.ReadFile(p)
			out[rel] = fmt.Sprintf("%d:%x", len(b), digest.FromBytes(b).Encoded()[:8])
		}
		return nil
	})
	return out
}

func runC20(e *core.Env) {
	ctx := context.Background()
	guard := e.TempDir()
	out := filepath.Join(guard, "chosen")
	_ = os.MkdirAll(out, 0o755)
	_ = os.WriteFile(filepath.Join(out, "existing.txt"), []byte("already here"), 0o644)
	_ = os.WriteFile(filepath.Join(guard, "sentinel.txt"), []byte("must not change"), 0o644)
	_ = os.MkdirAll(filepath.Join(guard, "sibling"), 0o755)
	_ = os.WriteFile(filepath.Join(guard, "sibling", "evil"), []byte("sibling file named like a target"), 0o644)
	net := simnet.New(e.Tape)
	rg := regmodel.New("reg.test")
	net.Hosts["reg.test"] = rg
	regclient.VerifRegOpts = func() []reg.Opts { return []reg.Opts{reg.WithHTTPClient(&http.Client{Transport: net})} }
	defer func() { regclient.VerifRegOpts = nil }()
	cfgFile := filepath.Join(guard, "regctl-config.json")
	_ = os.WriteFile(cfgFile, []byte(`{"incDockerCred": false, "incDockerCert": false}`), 0o644)
	_ = os.Setenv("REGCTL_CONFIG", cfgFile)
	disk := &simos.Disk{Root: out, Quiet: true}
	simos.Use(disk)
	defer simos.Use(nil)
	allowed := []string{out}
	mode := []string{"artifact-get", "artifact-get", "archive-extract", "import-into-layout", "layout-untrusted-index", "copy-from-byzantine-registry"}[e.Choose("gen", 6, "mode")]
	sample := map[string]any{"mode": mode}
	before := listTree(guard)
	var opErr error
	switch mode {
	case "artifact-get":
		// a byzantine artifact: titles (and unpacked tar entry names) chosen by the publisher
		type layer struct {
			MediaType   string            `json:"mediaType"`
			Digest      string            `json:"digest"`
			Size        int               `json:"size"`
			Annotations map[string]string `json:"annotations,omitempty"`
		}
		var layers []layer
		var titles []string
		rp := rg.Repo("proj/art")
		for i, n := 0, 1+e.Choose("gen", 3, "nlayers"); i < n; i++ {
			title := c20Evil[e.Choose("gen", len(c20Evil), "title")]
			var data []byte
			ann := map[string]string{"org.opencontainers.image.title": title}
			mt := "application/vnd.example.file"
			if e.Choose("gen", 3, "unpack") == 2 {
				var names []string
				data, names = c20Tar(e, true)
				ann["io.deis.oras.content.unpack"] = "true"
				mt = "application/vnd.example.dir+tar+gzip"
				titles = append(titles, title+" (unpack: "+strings.Join(names, "|")+")")
			} else {
				data = []byte(fmt.Sprintf("file %d", i))
				titles = append(titles, title)
			}
			if e.Choose("gen", 6, "notitle") == 5 {
				delete(ann, "org.opencontainers.image.title")
			}
			d := regmodel.Digest("sha256", data)
			rp.Blobs[d] = data
			layers = append(layers, layer{MediaType: mt, Digest: d, Size: len(data), Annotations: ann})
		}
		rp.Blobs[regmodel.Digest("sha256", []byte("{}"))] = []byte("{}")
		mb, _ := json.Marshal(map[string]any{"schemaVersion": 2, "mediaType": gen.MTOCIManifest, "artifactType": "application/vnd.example.art",
			"config": map[string]any{"mediaType": gen.MTOCIEmpty, "digest": regmodel.Digest("sha256", []byte("{}")), "size": 2}, "layers": layers})
		rg.PutManifest("proj/art", gen.MTOCIManifest, mb, "v1")
		strip := e.Choose("gen", 2, "strip") == 1
		sample["titles"], sample["strip_dirs"] = titles, strip
		cmd, _ := NewRootCmd()
		args := []string{"artifact", "get", "--output", out, "reg.test/proj/art:v1"}
		if strip {
			args = append(args, "--strip-dirs")
		}
		cmd.SetArgs(args)
		cmd.SetOut(&bytes.Buffer{})
		cmd.SetErr(&bytes.Buffer{})
		opErr = cmd.ExecuteContext(ctx)
	case "archive-extract":
		data, names := c20Tar(e, e.Choose("gen", 2, "gz") == 1)
		sample["tar_entries"] = names
		opErr = archive.Extract(ctx, out, bytes.NewReader(data))
	case "import-into-layout":
		// an archive posing as an exported image
		var buf bytes.Buffer
		tw := tar.NewWriter(&buf)
		put := func(name string, data []byte) {
			_ = tw.WriteHeader(&tar.Header{Name: name, Typeflag: tar.TypeReg, Size: int64(len(data)), Mode: 0o644})
			_, _ = tw.Write(data)
		}
		g := gen.New(e.Tape)
		g.NoExt = true
		img := g.Image(false)
		evilDigest := []string{img.Blobs[0].Desc.Digest, "sha256:../../../evil", "sha256:" + strings.Repeat("../", 20) + "evil", "../../evil:abc", "sha256:/abs/evil"}[e.Choose("gen", 5, "evildigest")]
		ix, _ := json.Marshal(map[string]any{"schemaVersion": 2, "manifests": []any{map[string]any{"mediaType": img.MediaType, "digest": img.Digest, "size": len(img.Raw),
			"annotations": map[string]string{"org.opencontainers.image.ref.name": "v1"}}}})
		put("oci-layout", []byte(`{"imageLayoutVersion":"1.0.0"}`))
		put("index.json", ix)
		raw := img.Raw
		if evilDigest != img.Blobs[0].Desc.Digest {
			raw = bytes.Replace(raw, []byte(img.Blobs[0].Desc.Digest), []byte(evilDigest), 1)
		}
		put("blobs/sha256/"+strings.TrimPrefix(img.Digest, "sha256:"), raw)
		for _, b := range img.Blobs {
			put("blobs/sha256/"+strings.TrimPrefix(b.Desc.Digest, "sha256:"), b.Data)
		}
		var extra []string
		for i, n := 0, e.Choose("gen", 4, "nextra"); i < n; i++ {
			name := c20Evil[e.Choose("gen", len(c20Evil), "extra")]
			if e.Choose("gen", 2, "underblobs") == 1 {
				name = "blobs/sha256/" + name
			}
			extra = append(extra, name)
			put(name, []byte("extra entry"))
		}
		_ = tw.Close()
		sample["evil_digest"], sample["extra_entries"] = evilDigest, extra
		rc := regclient.New()
		r, _ := ref.New("ocidir://" + out + ":imported")
		opErr = rc.ImageImport(ctx, r, bytes.NewReader(buf.Bytes()))
	case "layout-untrusted-index":
		// the chosen directory is a layout whose index and manifests were written by someone else
		g := gen.New(e.Tape)
		g.NoExt = true
		img := g.Image(false)
		gr := &gen.Graph{Root: img, DigestTags: map[string]*gen.Node{}}
		_ = gr.InstallLayout(out, "good", false)
		evil := []string{"sha256:../../../sentinel.txt", "sha256:../../sibling/evil", "../../sentinel.txt", "sha256:" + strings.Repeat("../", 12) + "etc/passwd", "sha512:../../../../sentinel.txt"}[e.Choose("gen", 5, "evil")]
		ib, _ := os.ReadFile(filepath.Join(out, "index.json"))
		var ix map[string]any
		_ = json.Unmarshal(ib, &ix)
		ms := ix["manifests"].([]any)
		ms = append(ms, map[string]any{"mediaType": img.MediaType, "digest": evil, "size": 10, "annotations": map[string]string{"org.opencontainers.image.ref.name": "evil"}})
		// and an index (tag evilindex) one of whose children carries the same digest
		evilIx, _ := json.Marshal(map[string]any{"schemaVersion": 2, "mediaType": gen.MTOCIIndex, "manifests": []any{
			map[string]any{"mediaType": img.MediaType, "digest": evil, "size": 10, "platform": map[string]string{"os": "linux", "architecture": "amd64"}},
			map[string]any{"mediaType": img.MediaType, "digest": img.Digest, "size": len(img.Raw), "platform": map[string]string{"os": "linux", "architecture": "arm64"}}}})
		evilIxD := regmodel.Digest("sha256", evilIx)
		_ = gen.LayoutFile(out, evilIxD, evilIx)
		ms = append(ms, map[string]any{"mediaType": gen.MTOCIIndex, "digest": evilIxD, "size": len(evilIx), "annotations": map[string]string{"org.opencontainers.image.ref.name": "evilindex"}})
		ix["manifests"] = ms
		nb, _ := json.Marshal(ix)
		_ = os.WriteFile(filepath.Join(out, "index.json"), nb, 0o644)
		before = listTree(guard)
		sample["evil_entry_digest"] = evil
		rc := regclient.New()
		other := filepath.Join(guard, "second-layout")
		allowed = append(allowed, other)
		var errsSeen []string
		ops := []func() error{
			func() error { _, err := rc.ManifestGet(ctx, mustRef("ocidir://"+out+":evil")); return err },
			func() error { _, err := rc.ManifestHead(ctx, mustRef("ocidir://"+out+":evil")); return err },
			func() error {
				return rc.ImageCopy(ctx, mustRef("ocidir://"+out+":evil"), mustRef("ocidir://"+other+":copy"))
			},
			func() error { return rc.TagDelete(ctx, mustRef("ocidir://"+out+":evil")) },
			func() error {
				return rc.ImageCopy(ctx, mustRef("ocidir://"+out+":good"), mustRef("ocidir://"+out+":good2"))
			},
			func() error { return rc.Close(ctx, mustRef("ocidir://"+out)) },
			func() error {
				_, err := rc.BlobGet(ctx, mustRef("ocidir://"+out), descriptor.Descriptor{Digest: digest.Digest(evil)})
				return err
			},
			func() error {
				_, err := rc.BlobPut(ctx, mustRef("ocidir://"+out), descriptor.Descriptor{Digest: digest.Digest(evil), Size: 4}, strings.NewReader("data"))
				return err
			},
			func() error {
				return rc.BlobDelete(ctx, mustRef("ocidir://"+out), descriptor.Descriptor{Digest: digest.Digest(evil)})
			},
			func() error { return rc.ManifestDelete(ctx, mustRef("ocidir://"+out+"@"+evil)) },
			// references whose digest was set from content (a child descriptor, a subject, a listing)
			func() error { _, err := rc.ManifestHead(ctx, mustRef("ocidir://"+out).SetDigest(evil)); return err },
			func() error { _, err := rc.ManifestGet(ctx, mustRef("ocidir://"+out).SetDigest(evil)); return err },
			func() error { return rc.ManifestDelete(ctx, mustRef("ocidir://"+out).SetDigest(evil)) },
			func() error {
				m, err := rc.ManifestGet(ctx, mustRef("ocidir://"+out+":good"))
				if err != nil {
					return err
				}
				return rc.ManifestDelete(ctx, mustRef("ocidir://"+out).SetDigest(evil), regclient.WithManifest(m))
			},
			func() error {
				m, err := rc.ManifestGet(ctx, mustRef("ocidir://"+out+":good"))
				if err != nil {
					return err
				}
				return rc.ManifestPut(ctx, mustRef("ocidir://"+out).SetDigest(evil), m)
			},
			func() error {
				_, err := rc.ManifestGet(ctx, mustRef("ocidir://"+out+":evilindex"), regclient.WithManifestPlatform(platform.Platform{OS: "linux", Architecture: "amd64"}))
				return err
			},
			func() error {
				return rc.ImageCopy(ctx, mustRef("ocidir://"+out+":evilindex"), mustRef("ocidir://"+other+":copyix"))
			},
			func() error {
				return rc.ImageCopy(ctx, mustRef("ocidir://"+out+":evilindex"), mustRef("ocidir://"+out+":ix2"))
			},
			func() error { _, err := rc.ReferrerList(ctx, mustRef("ocidir://"+out).SetDigest(evil)); return err },
			func() error { return rc.TagDelete(ctx, mustRef("ocidir://"+out+":evilindex")) },
			func() error { return rc.Close(ctx, mustRef("ocidir://"+out)) },
		}
		for i, n := 0, 2+e.Choose("gen", 5, "nops"); i < n; i++ {
			k := e.Choose("gen", len(ops), "op")
			func() {
				defer func() {
					if r := recover(); r != nil {
						errsSeen = append(errsSeen, fmt.Sprintf("op%d panicked: %v", k, r))
					}
				}()
				if err := ops[k](); err != nil {
					errsSeen = append(errsSeen, fmt.Sprintf("op%d: %v", k, err))
				}
			}()
		}
		sample["errors"] = len(errsSeen)
	case "copy-from-byzantine-registry":
		// manifests served by the registry name layers by path-like digests
		g := gen.New(e.Tape)
		g.NoExt = true
		img := g.Image(false)
		gr := &gen.Graph{Root: img, DigestTags: map[string]*gen.Node{}}
		gr.Install(rg, "proj/app", "v1")
		evil := []string{"sha256:../../../sentinel.txt", "sha256:" + strings.Repeat("../", 10) + "evil", "../../evil:x"}[e.Choose("gen", 3, "evil")]
		raw := bytes.Replace(img.Raw, []byte(img.Blobs[len(img.Blobs)-1].Desc.Digest), []byte(evil), 1)
		rg.PutManifest("proj/app", img.MediaType, raw, "evil")
		rg.Repo("proj/app").Blobs[evil] = []byte("payload for the path-like digest")
		sample["evil_layer_digest"] = evil
		rc := regclient.New()
		if e.Choose("gen", 2, "viaindex") == 1 {
			// the same digest as a child manifest of an index, copied into a layout that already holds an image
			_ = gr.InstallLayout(out, "present", false)
			before = listTree(guard)
			evilIx, _ := json.Marshal(map[string]any{"schemaVersion": 2, "mediaType": gen.MTOCIIndex, "manifests": []any{
				map[string]any{"mediaType": img.MediaType, "digest": evil, "size": 32, "platform": map[string]string{"os": "linux", "architecture": "amd64"}},
				map[string]any{"mediaType": img.MediaType, "digest": img.Digest, "size": len(img.Raw), "platform": map[string]string{"os": "linux", "architecture": "arm64"}}}})
			rg.PutManifest("proj/app", gen.MTOCIIndex, evilIx, "evilindex")
			rg.Repo("proj/app").Manifests[evil] = &regmodel.Manifest{MediaType: img.MediaType, Raw: []byte("payload for the path-like digest")}
			sample["as_index_child"] = true
			opErr = rc.ImageCopy(ctx, mustRef("reg.test/proj/app:evilindex"), mustRef("ocidir://"+out+":copiedix"))
			break
		}
		opErr = rc.ImageCopy(ctx, mustRef("reg.test/proj/app:evil"), mustRef("ocidir://"+out+":copied"))
	}
	simos.Use(nil)
	simrt.Event("%s -> %v", mode, opErr)
	e.SetCase(fmt.Sprintf("%v", sample), true, sample)
	e.Probe("mode:" + mode)
	if opErr == nil {
		e.Probe("operation-succeeded")
	} else {
		e.Probe("operation-refused")
	}
	// every mutating call through the seam stays inside the designated directory
	tmp := os.TempDir()
	muts := 0
	for _, en := range disk.Mutations() {
		for _, p := range []string{en.Abs, en.Abs2} {
			if p == "" {
				continue
			}
			muts++
			ok := false
			for _, a := range allowed {
				if p == a || strings.HasPrefix(p, a+"/") {
					ok = true
				}
			}
			if !ok && en.Op == "createtemp" && strings.HasPrefix(p, tmp+"/") && !strings.HasPrefix(p, guard) {
				ok = true // scratch files in the OS temp directory
			}
			if !ok {
				e.Violation("escape", "write-outside:"+mode+":"+en.Op, "%s issued %s on %s, outside the designated directory %s (%v)", mode, en.Op, p, out, sample)
			}
		}
	}
	if muts > 0 {
		e.Probe("writes-audited")
	}
	// a layout reference only reads inside its own directory, and unpacking reads nothing outside the chosen one
	// (the configuration file named by REGCTL_CONFIG is the one legitimate read elsewhere)
	reads := 0
	for _, en := range disk.Log {
		if en.Mut > 0 || en.Abs == "" {
			continue
		}
		reads++
		p := en.Abs
		ok := p == cfgFile || p == guard
		for _, a := range allowed {
			if p == a || strings.HasPrefix(p, a+"/") {
				ok = true
			}
		}
		if !ok && strings.HasPrefix(p, tmp+"/") && !strings.HasPrefix(p, guard) {
			ok = true
		}
		if !ok {
			e.Violation("escape", "read-outside:"+mode+":"+en.Op, "%s issued %s on %s, outside the designated directory %s (%v)", mode, en.Op, p, out, sample)
		}
	}
	if reads > 0 {
		e.Probe("reads-audited")
	}
	// and the enclosing guard directory is unchanged outside it
	after := listTree(guard)
	var keys []string
	for k := range after {
		keys = append(keys, k)
	}
	for k := range before {
		if _, ok := after[k]; !ok {
			keys = append(keys, k)
		}
	}
	sort.Strings(keys)
	for _, k := range keys {
		inside := false
		for _, a := range allowed {
			rel := strings.TrimPrefix(a, guard)
			if k == rel+"/" || strings.HasPrefix(k, rel+"/") {
				inside = true
			}
		}
		if inside {
			continue
		}
		if before[k] != after[k] {
			e.Violation("escape", "guard-changed:"+mode, "%s changed %s outside the designated directory (was %q, now %q)", mode, k, before[k], after[k])
		}
	}
	if _, err := os.Stat("/tmp/verif-c20-escape"); err == nil {
		e.Violation("escape", "absolute-escape:"+mode, "%s created /tmp/verif-c20-escape", mode)
		_ = os.Remove("/tmp/verif-c20-escape")
	}
}

func mustRef(s string) ref.Ref {
	r, err := ref.New(s)
	if err != nil {
		panic(fmt.Sprintf("ref %q: %v", s, err))
	}
	return r
}
