package main

import "github.com/regclient/regclient/types/ref"

type refT = ref.Ref

func refParse(s string) (ref.Ref, error) { return ref.New(s) }
