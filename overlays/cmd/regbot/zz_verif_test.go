//go:debug asynctimerchan=0
package main

import (
	"bytes"
	"context"
	"crypto/sha256"
	"encoding/hex"
	"fmt"
	"net/http"
	"os"
	"path/filepath"
	"sort"
	"strings"
	"testing"

	"github.com/regclient/regclient"
	"github.com/regclient/regclient/internal/verif/core"
	"github.com/regclient/regclient/internal/verif/gen"
	"github.com/regclient/regclient/internal/verif/regmodel"
	"github.com/regclient/regclient/internal/verif/simnet"
	"github.com/regclient/regclient/internal/verif/simos"
	"github.com/regclient/regclient/internal/verif/simrt"
	"github.com/regclient/regclient/scheme/reg"
)

// C19: a dry run of the scripting tool changes nothing.
// The real regbot command tree (once --dry-run) runs in-process with
// generated Lua scripts; the same scripts run normally on an identical world
// for the read-only comparison.

func TestVerif(t *testing.T) { core.Main(t) }

func init() {
	core.Register(&core.Prop{ID: "C19", Run: runC19, MaxSteps: 600000})
}

type c19World struct {
	net    *simnet.Net
	reg    *regmodel.Reg
	tgt    *regmodel.Reg
	layout string
	tarOK  string
	outDir string
}

func treeHash(dir string) string {
	h := sha256.New()
	var names []string
	_ = filepath.Walk(dir, func(p string, fi os.FileInfo, err error) error {
		if err == nil && !fi.IsDir() {
			names = append(names, p)
		}
		return nil
	})
	sort.Strings(names)
	for _, p := range names {
		b, _ := os.ReadFile(p)
		fmt.Fprintf(h, "%s %d %x\n", strings.TrimPrefix(p, dir), len(b), sha256.Sum256(b))
	}
	return hex.EncodeToString(h.Sum(nil))[:24]
}

func runC19(e *core.Env) {
	g := gen.New(e.Tape)
	g.MaxBlob = 60
	g.NoExt = true
	img := g.Graph(gen.Opts{NoReferrers: true, NoDigestTags: true, NoExternal: true, NoLegacy: true})
	img2 := g.Image(false)
	imgG2 := &gen.Graph{Root: img2, DigestTags: map[string]*gen.Node{}}
	var someBlob string
	for _, n := range img.AllNodes() {
		for _, b := range n.Blobs {
			if b.Hosted && someBlob == "" {
				someBlob = b.Desc.Digest
			}
		}
	}
	// a tar archive of img2 for importTar, built once outside the worlds
	tarDir := e.TempDir()
	mkWorld := func() *c19World {
		w := &c19World{net: simnet.New(e.Tape), reg: regmodel.New("reg.test"), tgt: regmodel.New("tgt.test"), layout: e.TempDir(), outDir: e.TempDir()}
		w.net.Hosts["reg.test"], w.net.Hosts["tgt.test"] = w.reg, w.tgt
		img.Install(w.reg, "proj/app", "v1")
		img.Install(w.reg, "proj/app", "v2")
		imgG2.Install(w.reg, "proj/app", "dev")
		imgG2.Install(w.reg, "proj/lib", "v1")
		for i := 0; i < 6; i++ {
			imgG2.Install(w.reg, "signal/start", fmt.Sprintf("s%d", i))
		}
		imgG2.Install(w.tgt, "existing/app", "keep")
		if err := imgG2.InstallLayout(w.layout, "inlayout", false); err != nil {
			panic(err)
		}
		// a blob nothing refers to (left by an interrupted push of some other tool): a dry run has no business removing it
		if err := gen.LayoutFile(w.layout, regmodel.Digest("sha256", []byte("c19 unreferenced blob")), []byte("c19 unreferenced blob")); err != nil {
			panic(err)
		}
		return w
	}
	// scripts
	nscripts := 1 + e.Choose("gen", 4, "nscripts")
	parallel := e.Choose("gen", 4, "parallel")
	failing := -1
	if e.Choose("gen", 3, "failing") == 2 {
		failing = e.Choose("gen", nscripts, "which")
	}
	reads := []string{
		`local tags = tag.ls("reg.test/proj/app"); sig("tags-" .. table.concat(tags, "_"))`,
		`local m = manifest.get("reg.test/proj/lib:v1"); sig("mget-ok")`,
		`local mh = manifest.head("reg.test/proj/app:v1"); sig("mhead-ok")`,
		`local ml = manifest.getList("reg.test/proj/app:v2"); sig("mlist-ok")`,
		`local c = image.config("reg.test/proj/lib:v1"); sig("config-ok")`,
		`local b = blob.head("reg.test/proj/app", "` + someBlob + `"); sig("bhead-ok")`,
		`local b = blob.get("reg.test/proj/app", "` + someBlob + `"); sig("bget-ok")`,
		`local r = reference.new("reg.test/proj/app:v1"); r:tag("dev"); local mh = manifest.head(r); sig("ref-" .. r:tag())`,
		// read functions on their error paths (a list or a head result has no config; a repository that does not exist)
		`local ml = manifest.getList("reg.test/proj/app:v1"); local c = image.config(ml); sig("config-of-getlist-ok")`,
		`local mh = manifest.head("reg.test/proj/lib:v1"); local c = image.config(mh); sig("config-of-head-ok")`,
		`local c = image.config("reg.test/proj/missing:v1"); sig("config-of-missing-ok")`,
		`local m = manifest.get("reg.test/proj/app:nosuchtag"); sig("mget-missing-ok")`,
		`local rl = repo.ls("reg.test"); sig("repos-" .. #rl)`,
		`local tags = tag.ls("ocidir://$LAYOUT"); sig("ltags-" .. table.concat(tags, "_"))`,
		// closing a reference the script only read from
		`local r = reference.new("ocidir://$LAYOUT:inlayout"); local mh = manifest.head(r); r:close(); sig("layout-ref-closed")`,
		`local r = reference.new("reg.test/proj/app:v1"); local mh = manifest.head(r); reference.close(r); sig("reg-ref-closed")`,
	}
	failingReads := []string{
		`local ml = manifest.getList("reg.test/proj/app:v1"); local c = image.config(ml); local mh = manifest.head("reg.test/proj/lib:v1"); local c2 = image.config(mh); error("no config for a head result")`,
		`local mh = manifest.head("reg.test/proj/lib:v1"); local c = image.config(mh)`,
		`local m = manifest.get("reg.test/proj/app:nosuchtag")`,
		`local b = blob.get("reg.test/proj/app", "` + someBlob + `"); local c = image.config("reg.test/proj/missing:v1")`,
	}
	writes := []string{
		`tag.delete("reg.test/proj/app:v2")`,
		`tag.delete("reg.test/proj/app@` + img.Root.Digest + `")`,
		`local r = reference.new("reg.test/proj/app:v1"); r:digest("` + img.Root.Digest + `"); tag.delete(r)`,
		`tag.delete("ocidir://$LAYOUT@` + img2.Digest + `")`,
		`local mh = manifest.head("reg.test/proj/app:dev"); mh:delete()`,
		`local m = manifest.get("reg.test/proj/lib:v1"); manifest.put(m, "tgt.test/put/app:t1")`,
		`local m = manifest.get("reg.test/proj/lib:v1"); m:put("reg.test/proj/app:newtag")`,
		`blob.put("tgt.test/put/app", "some blob content")`,
		`local b = blob.get("reg.test/proj/app", "` + someBlob + `"); blob.put("tgt.test/put/app", b)`,
		`image.copy("reg.test/proj/app:v1", "tgt.test/copy/app:v1")`,
		`image.copy("reg.test/proj/app:v1", "reg.test/proj/app:retag")`,
		`image.copy("reg.test/proj/app:v1", "tgt.test/copy/app:v1", {digestTags = true, forceRecursive = true})`,
		`image.copy("reg.test/proj/lib:v1", "ocidir://$LAYOUT:copied")`,
		`image.importTar("tgt.test/imp/app:t", "$TAR")`,
		`image.importTar("ocidir://$LAYOUT:imported", "$TAR")`,
		`tag.delete("ocidir://$LAYOUT:inlayout")`,
		`local m = manifest.get("reg.test/proj/lib:v1"); manifest.put(m, "ocidir://$LAYOUT:put")`,
		`image.exportTar("reg.test/proj/lib:v1", "$OUT/export.tar")`,
		`local tags = tag.ls("reg.test/proj/app"); for _, t in ipairs(tags) do if t ~= "v1" then tag.delete("reg.test/proj/app:" .. t) end end`,
		`local tags = tag.ls("reg.test/proj/app"); if #tags > 2 then image.copy("reg.test/proj/app:v1", "tgt.test/many/app:v1") else blob.put("tgt.test/few/app", "x") end`,
	}
	var scripts []string
	var usedWrites []string
	timeoutScript := -1
	for i := 0; i < nscripts; i++ {
		var sb strings.Builder
		fmt.Fprintf(&sb, "local function sig(s) pcall(function() manifest.head(\"reg.test/signal/r:p%d-\" .. s) end) end\n", i)
		fmt.Fprintf(&sb, "manifest.head(\"reg.test/signal/start:s%d\")\n", i)
		for k, n := 0, 1+e.Choose("gen", 3, "nreads"); k < n; k++ {
			fmt.Fprintf(&sb, "pcall(function() %s end)\n", reads[e.Choose("gen", len(reads), "read")])
		}
		sb.WriteString("sig(\"w-begin\")\n")
		if i == failing {
			switch e.Choose("gen", 5, "early") {
			case 1:
				sb.WriteString("error(\"script fails on purpose\")\n")
			case 2:
				// fails inside a read function, not protected
				sb.WriteString(failingReads[e.Choose("gen", len(failingReads), "failread")] + "\n")
			case 3:
				// runs into its own timeout: enough requests to use up the two (simulated) seconds it is given
				timeoutScript = i
				sb.WriteString("for i = 1, 3000 do manifest.head(\"reg.test/proj/lib:v1\") end\n")
			}
		}
		for k, n := 0, 1+e.Choose("gen", 4, "nwrites"); k < n; k++ {
			wst := writes[e.Choose("gen", len(writes), "write")]
			usedWrites = append(usedWrites, wst)
			if e.Choose("gen", 3, "bare") == 2 {
				sb.WriteString(wst + "\n") // not protected: an error ends the script
			} else {
				fmt.Fprintf(&sb, "pcall(function() %s end)\n", wst)
			}
		}
		if i == failing {
			sb.WriteString("error(\"script fails on purpose\")\n")
		}
		sb.WriteString("sig(\"end\")\n")
		scripts = append(scripts, sb.String())
	}
	// one request at a time per registry (a host setting of the configuration): whatever a script leaves open then
	// stands in the way of everything after it. Only with scripts run one after the other, where the comparison with
	// the solo run is made.
	oneSlot := parallel == 0 && e.Choose("gen", 3, "oneslot") == 2
	sample := map[string]any{"scripts": scripts, "parallel": parallel, "failing_script": failing, "script_with_2s_timeout": timeoutScript, "reqConcurrent_1": oneSlot}
	e.SetCase(fmt.Sprintf("%v|%d|%d|%v|%s", scripts, parallel, failing, oneSlot, img.Root.Digest), true, sample)

	var only []int // nil: all scripts
	runBot := func(w *c19World, dry bool) error {
		regclient.VerifRegOpts = func() []reg.Opts {
			return []reg.Opts{reg.WithHTTPClient(&http.Client{Transport: w.net})}
		}
		defer func() { regclient.VerifRegOpts = nil }()
		var cfg strings.Builder
		cfg.WriteString("version: 1\n")
		if oneSlot {
			cfg.WriteString("creds:\n  - registry: reg.test\n    reqConcurrent: 1\n  - registry: tgt.test\n    reqConcurrent: 1\n")
		}
		fmt.Fprintf(&cfg, "defaults:\n  skipDockerConfig: true\n  parallel: %d\n  timeout: 1h\nscripts:\n", parallel)
		for i, s := range scripts {
			if only != nil && !slicesContains(only, i) {
				continue
			}
			s = strings.NewReplacer("$LAYOUT", w.layout, "$TAR", w.tarOK, "$OUT", w.outDir).Replace(s)
			fmt.Fprintf(&cfg, "  - name: script-%d\n", i)
			if i == timeoutScript {
				cfg.WriteString("    timeout: 2s\n")
			}
			cfg.WriteString("    script: |\n")
			for _, l := range strings.Split(strings.TrimRight(s, "\n"), "\n") {
				cfg.WriteString("      " + l + "\n")
			}
		}
		cf := filepath.Join(w.outDir, "regbot.yml")
		if err := os.WriteFile(cf, []byte(cfg.String()), 0o644); err != nil {
			panic(err)
		}
		cmd, _ := NewRootCmd()
		lvl := os.Getenv("VERIF_BOTLOG")
		if lvl == "" {
			lvl = "error"
		}
		args := []string{"once", "-c", cf, "-v", lvl}
		if dry {
			args = append(args, "--dry-run")
		}
		cmd.SetArgs(args)
		cmd.SetOut(&bytes.Buffer{})
		cmd.SetErr(&bytes.Buffer{})
		return cmd.ExecuteContext(context.Background())
	}
	// the archive for importTar: export img2 from a scratch world through the public API
	{
		w0 := mkWorld()
		regclient.VerifRegOpts = func() []reg.Opts { return []reg.Opts{reg.WithHTTPClient(&http.Client{Transport: w0.net})} }
		rc := regclient.New()
		regclient.VerifRegOpts = nil
		var buf bytes.Buffer
		r, _ := refNew("reg.test/proj/lib:v1")
		if err := rc.ImageExport(context.Background(), r, &buf); err != nil {
			e.Infra("preparing the import archive: %v", err)
			return
		}
		_ = os.WriteFile(filepath.Join(tarDir, "img.tar"), buf.Bytes(), 0o644)
	}
	// signals: requests to the signal repository; phase1 = what script 0 reported before its first write statement
	signals := func(w *c19World) (phase1 []string, all map[string]bool) {
		all = map[string]bool{}
		begun := false
		for _, x := range w.net.Log {
			const p = "/v2/signal/r/manifests/"
			if strings.HasPrefix(x.Path, "/v2/signal/start/manifests/") {
				all["start-"+strings.TrimPrefix(x.Path, "/v2/signal/start/manifests/")] = true
			}
			if !strings.HasPrefix(x.Path, p) {
				continue
			}
			s := strings.TrimPrefix(x.Path, p)
			all[s] = true
			if !strings.HasPrefix(s, "p0-") {
				continue
			}
			if s == "p0-w-begin" {
				begun = true
			}
			if !begun {
				phase1 = append(phase1, s)
			}
		}
		sort.Strings(phase1)
		return
	}
	// ---- dry run
	wd := mkWorld()
	wd.tarOK = filepath.Join(tarDir, "img.tar")
	disk := &simos.Disk{Root: wd.layout}
	simos.Use(disk)
	before := treeHash(wd.layout)
	regBefore, tgtBefore := len(wd.reg.Journal), len(wd.tgt.Journal)
	err := runBot(wd, true)
	simos.Use(nil)
	simrt.Event("regbot once --dry-run -> %v", err)
	for _, x := range wd.net.Log {
		if simnet.IsWrite(x.Method) {
			fn := "other"
			switch {
			case strings.Contains(x.Path, "/blobs/uploads"):
				fn = "blob-upload"
			case strings.Contains(x.Path, "/manifests/") && x.Method == "PUT":
				fn = "manifest-put"
			case x.Method == "DELETE":
				fn = "delete"
			}
			e.Violation("dry-run-writes", "state-changing-request:"+fn, "dry run sent %s %s%s (request #%d); write statements in the scripts: %v", x.Method, x.Host, x.Path, x.Seq, usedWrites)
			break
		}
	}
	if len(wd.reg.Journal) != regBefore || len(wd.tgt.Journal) != tgtBefore {
		e.Violation("dry-run-writes", "registry-state-changed", "a registry's state changed during the dry run")
	}
	for _, en := range disk.Mutations() {
		if strings.HasPrefix(en.Abs, wd.layout+"/") || en.Abs == wd.layout {
			e.Violation("dry-run-writes", "layout-file-touched:"+en.Op, "dry run issued %s on %s inside the OCI layout; write statements in the scripts: %v", en.Op, en.Path, usedWrites)
			break
		}
	}
	if after := treeHash(wd.layout); after != before {
		e.Violation("dry-run-writes", "layout-changed", "the OCI layout directory differs after the dry run")
	}
	_, dAll := signals(wd)
	for i := 0; i < nscripts; i++ {
		if !dAll[fmt.Sprintf("start-s%d", i)] {
			e.Violation("isolation", "script-did-not-run", "script %d never started (failing script: %d, parallel %d)", i, failing, parallel)
		}
	}
	// a script - failing or not - does not keep the others from running: in a dry run nothing changes, so a script
	// that runs after the others have ended must report exactly what it reports when it is the only script of the
	// configuration (identical world, dry run); anything else means an earlier script left something behind
	perScript := func(w *c19World, i int) []string {
		var out []string
		pfx := fmt.Sprintf("/v2/signal/r/manifests/p%d-", i)
		for _, x := range w.net.Log {
			if strings.HasPrefix(x.Path, pfx) {
				out = append(out, strings.TrimPrefix(x.Path, pfx))
			}
		}
		return out
	}
	// (only for scripts run one after the other: scripts run in parallel legitimately compete for request slots,
	// e.g. through blob readers they keep open)
	if nscripts > 1 && parallel == 0 {
		for i := 0; i < nscripts; i++ {
			ws := mkWorld()
			ws.tarOK = filepath.Join(tarDir, "img.tar")
			only = []int{i}
			_ = runBot(ws, true)
			only = nil
			alone, together := perScript(ws, i), perScript(wd, i)
			if strings.Join(alone, ",") != strings.Join(together, ",") {
				e.Violation("isolation", "script-disturbed-by-others", "script %d reports %v when it is the only script and %v when run with the others (dry run, parallel %d, failing script %d)", i, alone, together, parallel, failing)
				break
			}
			e.Probe("script-compared-with-solo-run")
		}
	}
	if oneSlot {
		e.Probe("one-request-slot-per-registry")
	}
	if timeoutScript >= 0 {
		e.Probe("with-script-running-into-its-timeout")
	}
	if failing >= 0 {
		e.Probe("with-failing-script")
		if err == nil {
			e.Probe("failing-script-not-reported")
		}
	}
	e.Probe("dry-run")
	// ---- normal run on an identical world: read-only functions behave exactly the same
	wn := mkWorld()
	wn.tarOK = filepath.Join(tarDir, "img.tar")
	nerr := runBot(wn, false)
	simrt.Event("regbot once -> %v", nerr)
	dP, _ := signals(wd)
	nP, _ := signals(wn)
	// (with parallel scripts another script's writes may precede script 0's reads in the normal run)
	if parallel == 0 && strings.Join(dP, ",") != strings.Join(nP, ",") {
		e.Violation("reads", "read-only-results-differ", "read-only functions reported %v in the dry run and %v in a normal run on an identical world", dP, nP)
	}
	if len(wn.tgt.Journal)+len(wn.reg.Journal) > 0 {
		e.Probe("normal-run-writes") // the scripts do write when not in dry-run mode: the dry-run check is not vacuous
	}
}

func refNew(s string) (r refT, err error) { return refParse(s) }

func slicesContains(l []int, x int) bool {
	for _, y := range l {
		if y == x {
			return true
		}
	}
	return false
}
