#!/usr/bin/env python3
"""Runner for the deterministic-simulation checks (see DESIGN.md).

  verif.py check <ID> [quick|thorough]   build from /repo's working tree, explore, write evidence/<ID>.json
  verif.py replay <ID> <file>            rebuild and re-execute a replay file (exit 1 when it reproduces)
  verif.py selftest <ID> [n]             determinism self-test: same seeds in many processes at GOMAXPROCS 1/4/16
  verif.py build                         build the tools and warm the build cache (setup_cmd)

Exit codes: 0 held, 1 violation (line "VIOLATION property=<id> replay=<path>"), 2 infrastructure trouble.
"""
import json, os, shutil, signal, subprocess, sys, tempfile, time, hashlib, glob

VERIF = os.path.dirname(os.path.abspath(__file__))
REPO = os.environ.get("VERIF_REPO", "/repo")
# evidence and replays of a run against another tree (seeded changes in a scratch worktree) never land in /verif
OUTBASE = os.environ.get("VERIF_OUT_DIR") or (None if REPO != "/repo" else "")
GO = os.environ.get("VERIF_GO", "go1.26.8")
NCPU = int(os.environ.get("VERIF_WORKERS", str(min(16, os.cpu_count() or 4))))
ENV = dict(os.environ, GOFLAGS="-mod=mod", GOPROXY="off", GOSUMDB="off", GOTOOLCHAIN="local", CGO_ENABLED="0")
# the module cache of this sandbox is under /root/go whatever HOME the caller happens to export: nothing can be
# fetched, so a go command that looks elsewhere finds no dependency at all
if "GOMODCACHE" not in os.environ and os.path.isdir("/root/go/pkg/mod/cache/download"):
    ENV["GOMODCACHE"] = "/root/go/pkg/mod"
if "GOCACHE" not in os.environ and os.path.isdir("/root/.cache/go-build") and os.access("/root/.cache/go-build", os.W_OK):
    ENV["GOCACHE"] = "/root/.cache/go-build"
MOD = "github.com/regclient/regclient"

def log(*a):
    print("[verif]", *a, file=sys.stderr, flush=True)

def die(msg, code=2):
    print("INFRA-ERROR:", msg, flush=True)
    try:
        # what the go command saw, for the reader of the log
        r = subprocess.run([GO, "env", "GOMODCACHE", "GOCACHE", "GOPATH", "GOFLAGS", "GOPROXY", "GOVERSION"], env=ENV, stdout=subprocess.PIPE, stderr=subprocess.STDOUT, text=True, timeout=60)
        print("INFRA-ERROR: go env (GOMODCACHE GOCACHE GOPATH GOFLAGS GOPROXY GOVERSION): %s; HOME=%s USER-ID=%d cwd=%s" % (" | ".join(r.stdout.split("\n")), os.environ.get("HOME"), os.getuid(), os.getcwd()), flush=True)
    except Exception as ex:
        print("INFRA-ERROR: go env unavailable: %s" % ex, flush=True)
    sys.exit(code)

def sh(cmd, cwd=None, check=True, quiet=False):
    r = subprocess.run(cmd, cwd=cwd, env=ENV, stdout=subprocess.PIPE, stderr=subprocess.STDOUT, text=True)
    if check and r.returncode != 0:
        die("command failed: %s\n%s" % (" ".join(cmd), r.stdout[-6000:]))
    if not quiet and r.stdout.strip():
        log(r.stdout.strip()[-2000:])
    return r

_outbase = None
def outbase():
    global _outbase
    if _outbase is None:
        if OUTBASE == "":
            _outbase = VERIF
        elif OUTBASE:
            _outbase = OUTBASE
        else:
            _outbase = tempfile.mkdtemp(prefix="verif-altout-")
            log("tree under test is %s, not /repo: evidence and replays go to %s" % (REPO, _outbase))
    return _outbase

def load_props():
    with open(os.path.join(VERIF, "props.json")) as f:
        return json.load(f)

def build_tools():
    os.makedirs(os.path.join(VERIF, "bin"), exist_ok=True)
    out = os.path.join(VERIF, "bin", "instrument")
    src = os.path.join(VERIF, "tools", "instrument")
    if not os.path.exists(out) or os.path.getmtime(out) < max(os.path.getmtime(p) for p in glob.glob(src + "/*")):
        sh([GO, "build", "-o", out, "."], cwd=src)
    return out

class Scratch:
    def __init__(self):
        base = os.environ.get("VERIF_SCRATCH_BASE") or tempfile.gettempdir()
        self.dir = tempfile.mkdtemp(prefix="verif-scratch-", dir=base)
        self.repo = os.path.join(self.dir, "repo")
        self.bin = os.path.join(self.dir, "bin")
        self.fs = os.path.join(self.dir, "fs")
        self.out = os.path.join(self.dir, "out")
        for d in (self.bin, self.fs, self.out):
            os.makedirs(d)
    def cleanup(self):
        shutil.rmtree(self.dir, ignore_errors=True)

def prepare(sc, pkg):
    """copy /repo's working tree, instrument it, add the harness, build the test binary for pkg"""
    t0 = time.time()
    instr = build_tools()
    sh(["rsync", "-a", "--exclude", ".git", REPO + "/", sc.repo + "/"])
    sh([instr, sc.repo])
    hv = os.path.join(sc.repo, "internal", "verif")
    shutil.copytree(os.path.join(VERIF, "harness"), hv)
    # overlays: package-main tests for the CLI-level properties
    ov = os.path.join(VERIF, "overlays")
    for root, _, files in os.walk(ov):
        for fn in files:
            rel = os.path.relpath(os.path.join(root, fn), ov)
            dst = os.path.join(sc.repo, rel)
            os.makedirs(os.path.dirname(dst), exist_ok=True)
            shutil.copy(os.path.join(root, fn), dst)
    sh([GO, "mod", "edit", "-require=github.com/anishathalye/porcupine@v1.3.0"], cwd=sc.repo)
    binp = os.path.join(sc.bin, pkg.replace("/", "_") + ".test")
    r = sh([GO, "test", "-c", "-vet=off", "-o", binp, "./" + pkg], cwd=sc.repo, check=False, quiet=True)
    if r.returncode != 0:
        die("the instrumented tree does not build:\n" + r.stdout[-8000:])
    log("built %s in %.1fs" % (pkg, time.time() - t0))
    return binp

def tree_hash():
    r = subprocess.run("cd %s && (git rev-parse HEAD; git diff HEAD | sha256sum)" % REPO, shell=True, stdout=subprocess.PIPE, stderr=subprocess.DEVNULL, text=True)
    return hashlib.sha256(r.stdout.encode()).hexdigest()[:16]

def load_known():
    known, fixed = [], []
    p = os.path.join(VERIF, "KNOWN_FINDINGS.txt")
    if os.path.exists(p):
        for line in open(p):
            line = line.strip()
            if line.startswith("known:"):
                parts = line.split(None, 3)
                kv = dict(x.split("=", 1) for x in parts[1:3])
                known.append({"property": kv.get("property"), "fp": kv.get("fp"), "what": parts[3] if len(parts) > 3 else ""})
            elif line.startswith("fixed:"):
                fixed.append(line)
    return known, fixed

TESTRE = "^TestVerif$"

def run_workers(binp, sc, pid, tier, seed, runs, pos_budget, budget_s, nworkers, extra_env=None):
    procs = []
    for w in range(nworkers):
        env = dict(ENV, VERIF_PROP=pid, VERIF_TIER=tier, VERIF_SEED=str(seed), VERIF_RUNS=str(runs),
                   VERIF_SHARD="%d/%d" % (w, nworkers), VERIF_OUT=os.path.join(sc.out, "w%d.json" % w),
                   VERIF_REPLAY_DIR=sc.out, VERIF_FS=sc.fs, VERIF_POS_BUDGET=str(pos_budget),
                   VERIF_BUDGET_S=str(budget_s), GOMAXPROCS="2")
        if extra_env:
            env.update(extra_env)
        lf = open(os.path.join(sc.out, "w%d.log" % w), "w")
        procs.append((w, subprocess.Popen([binp, "-test.run", TESTRE, "-test.timeout", "12h", "-test.count", "1"],
                                          env=env, stdout=lf, stderr=subprocess.STDOUT, cwd=sc.fs), lf))
    sums, infra = [], []
    deadline = time.time() + budget_s + 300
    for w, p, lf in procs:
        try:
            p.wait(timeout=max(1, deadline - time.time()))
        except subprocess.TimeoutExpired:
            p.kill()
            infra.append("worker %d: watchdog killed it (no result within the wall-clock budget)" % w)
            continue
        finally:
            lf.close()
        op = os.path.join(sc.out, "w%d.json" % w)
        if not os.path.exists(op):
            tail = open(os.path.join(sc.out, "w%d.log" % w)).read()[-3000:]
            infra.append("worker %d exited %d without a result:\n%s" % (w, p.returncode, tail))
            continue
        sums.append(json.load(open(op)))
    return sums, infra

def merge(sums):
    tot = {"seeds": 0, "execs": 0, "positional_execs": 0, "steps": 0, "contended": 0, "sim_ns": 0, "probes": {}, "faults": {},
           "case_keys": set(), "il_hashes": set(), "samples": [], "found": {}, "infra": [], "determinism_reruns": 0,
           "determinism_mismatches": 0, "leaked": 0, "hung": 0, "hung_seeds": [], "stopped": [], "keys_capped": False, "pos_complete": 0, "wall_max": 0.0}
    for s in sums:
        tot["seeds"] += s["seeds"]; tot["execs"] += s["execs"]; tot["positional_execs"] += s["positional_execs"]
        tot["steps"] += s["steps"]; tot["contended"] += s["contended"]; tot["sim_ns"] += s["sim_ns"]
        for k, v in (s.get("probes") or {}).items(): tot["probes"][k] = tot["probes"].get(k, 0) + v
        for k, v in (s.get("faults") or {}).items(): tot["faults"][k] = tot["faults"].get(k, 0) + v
        tot["case_keys"].update(s.get("case_keys") or []); tot["il_hashes"].update(s.get("il_hashes") or [])
        tot["samples"] += (s.get("samples") or [])[:2]
        for f in s.get("found") or []:
            key = f["class"] + "|" + f["fingerprint"]
            if key in tot["found"]:
                tot["found"][key]["count"] += f["count"]
                if not tot["found"][key].get("replay") and f.get("replay"):
                    tot["found"][key]["replay"] = f["replay"]
            else:
                tot["found"][key] = dict(f)
        tot["infra"] += s.get("infra") or []
        tot["determinism_reruns"] += s["determinism_reruns"]; tot["determinism_mismatches"] += s["determinism_mismatches"]
        tot["leaked"] += s.get("runs_with_leaked_goroutines", 0)
        tot["hung"] += s.get("hung_runs", 0); tot["hung_seeds"] += (s.get("hung_seeds") or [])[:2]
        if s.get("stopped"): tot["stopped"].append(s["stopped"])
        tot["keys_capped"] |= bool(s.get("keys_capped"))
        tot["pos_complete"] += s.get("seeds_with_complete_position_enumeration", 0)
        tot["wall_max"] = max(tot["wall_max"], s["wall_s"])
    return tot

def cmd_check(pid, tier):
    props = load_props()
    if pid not in props:
        die("unknown property " + pid)
    cfg = props[pid]
    global TESTRE
    TESTRE = "^%s$" % cfg.get("test", "TestVerif")
    t0 = time.time()
    seed = int(os.environ.get("VERIF_SEED", "1") or "1")
    tc = cfg[tier]
    runs = int(os.environ.get("VERIF_RUNS", tc["runs"]))
    budget_s = int(os.environ.get("VERIF_BUDGET_S", tc.get("budget_s", 600)))
    sc = Scratch()
    def on_sig(signum, frame):
        sc.cleanup(); sys.exit(2)
    signal.signal(signal.SIGTERM, on_sig); signal.signal(signal.SIGINT, on_sig)
    try:
        binp = prepare(sc, cfg["pkg"])
        build_s = time.time() - t0
        sums, infra = run_workers(binp, sc, pid, tier, seed, runs, tc.get("pos_budget", 0), budget_s, NCPU)
        tot = merge(sums)
        infra += tot["infra"]
        known, _ = load_known()
        os.makedirs(os.path.join(outbase(), "replays"), exist_ok=True)
        viol_lines, known_lines, new_viol = [], [], 0
        extra_fps = []
        for key, f in sorted(tot["found"].items()):
            k = next((k for k in known if k["property"] == pid and k["fp"] == f["fingerprint"]), None)
            if k:
                known_lines.append("KNOWN-FINDING: property=%s fp=%s %s (seen %d times; e.g. seed %d)" % (pid, f["fingerprint"], k["what"], f["count"], f["seed"]))
                continue
            if not f.get("replay"):
                extra_fps.append("%s (seed %d %s): %s" % (key, f["seed"], f.get("params") or "", f["detail"][:200]))
                continue
            dst = os.path.join(outbase(), "replays", os.path.basename(f["replay"]))
            shutil.copy(f["replay"], dst)
            # the replay must reproduce in a fresh process
            env = dict(ENV, VERIF_PROP=pid, VERIF_REPLAY=dst, VERIF_FS=sc.fs, GOMAXPROCS="2", VERIF_OUT=os.path.join(sc.out, "replay.json"))
            subprocess.run([binp, "-test.run", TESTRE, "-test.count", "1"], env=env, stdout=subprocess.DEVNULL, stderr=subprocess.DEVNULL, cwd=sc.fs)
            try:
                outcome = json.load(open(os.path.join(sc.out, "replay.json")))["outcome"]
            except Exception as ex:
                outcome = "replay-run-failed: %s" % ex
            if outcome != "reproduced-exactly":
                infra.append("replay %s did not reproduce exactly in a fresh process: %s" % (dst, outcome))
                continue
            new_viol += 1
            viol_lines.append("VIOLATION property=%s replay=%s" % (pid, dst))
            log("violation %s: %s" % (key, f["detail"]))
        wall = time.time() - t0
        run_wall = max(wall - build_s, 1e-9)
        keys = tot["case_keys"]
        ev = {
            "property_id": pid, "tier": tier, "seed": seed, "level": cfg["level"],
            "coverage": {
                "evaluations": tot["execs"],
                "distinct_nontrivial": len(keys),
                "rule": cfg["rule"] + (" (distinct-key sets were capped per worker; the count is a lower bound)" if tot["keys_capped"] else ""),
                "samples": tot["samples"][:4],
                "exhaustive": False,
                "seeds": tot["seeds"],
                "positional_executions": tot["positional_execs"],
                "seeds_with_complete_position_enumeration": tot["pos_complete"],
                "scheduler_steps": tot["steps"],
                "contended_decisions": tot["contended"],
                "distinct_interleavings": len(tot["il_hashes"]),
                "distinct_interleavings_measure": "distinct hashes of the sequence of task ids chosen at scheduling points where more than one task was runnable",
                "simulated_seconds": tot["sim_ns"] / 1e9,
                "runs_per_hour": int(tot["execs"] / run_wall * 3600),
                "seeds_per_hour": int(tot["seeds"] / run_wall * 3600),
                "faults_fired": tot["faults"],
                "probes_hit": tot["probes"],
                "determinism_reruns": tot["determinism_reruns"],
                "determinism_mismatches": tot["determinism_mismatches"],
                "runs_with_leaked_goroutines": tot["leaked"],
                "hung_runs": tot["hung"], "hung_run_examples": tot["hung_seeds"][:5],
                "components_real": cfg.get("real", []),
                "components_stub": cfg.get("stub", []),
                "known_findings_seen": known_lines,
                "workers": NCPU, "build_s": round(build_s, 1), "tree": tree_hash(),
                "stopped_early": sorted(set(tot["stopped"])),
            },
            "assumptions": cfg.get("assumptions", []) + [
                "go1.26.8 compiles regclient with the same semantics as the repository's go1.23.5; harness binaries run with asynctimerchan=0 (required by testing/synctest)",
                "the syntactic instrumentation (simrt.Go, simrt.Mutex, yields, os shim) preserves behaviour up to scheduling",
            ],
            "wall_s": round(wall, 2),
            "violations": new_viol,
        }
        # vacuity / reach guards: required probes must have fired
        for pr in tc.get("require_probes", cfg.get("require_probes", [])):
            if tot["probes"].get(pr, 0) == 0 and tot["faults"].get(pr, 0) == 0:
                infra.append("vacuity guard: probe '%s' never fired in this run" % pr)
        if tot["hung"] * 50 > max(tot["execs"], 1):
            infra.append("more than 2%% of the runs hung (%d of %d), e.g. %s: the harness refuses to answer" % (tot["hung"], tot["execs"], tot["hung_seeds"][:3]))
        if tot["execs"] == 0:
            infra.append("no executions")
        os.makedirs(os.path.join(outbase(), "evidence"), exist_ok=True)
        with open(os.path.join(outbase(), "evidence", pid + ".json"), "w") as f:
            json.dump(ev, f, indent=1, sort_keys=False)
        for l in known_lines: print(l)
        for l in viol_lines: print(l)
        if extra_fps:
            if new_viol == 0:
                infra.append("violations without a minimised replay: %s" % extra_fps[:3])
            print("further violation fingerprints seen (not minimised, same run): %d" % len(extra_fps))
            for x in extra_fps[:8]: print("   ", x)
        print("%s %s: seeds=%d execs=%d distinct=%d interleavings=%d steps=%d sim=%.1fs wall=%.1fs violations=%d known=%d" % (
            pid, tier, tot["seeds"], tot["execs"], len(keys), len(tot["il_hashes"]), tot["steps"], tot["sim_ns"] / 1e9, wall, new_viol, len(known_lines)))
        if infra:
            for i in infra[:10]: print("INFRA-ERROR:", i)
            return 2 if new_viol == 0 else 1
        return 1 if new_viol else 0
    finally:
        sc.cleanup()

def cmd_replay(pid, path):
    props = load_props()
    global TESTRE
    TESTRE = "^%s$" % props[pid].get("test", "TestVerif")
    sc = Scratch()
    try:
        binp = prepare(sc, props[pid]["pkg"])
        env = dict(ENV, VERIF_PROP=pid, VERIF_REPLAY=os.path.abspath(path), VERIF_FS=sc.fs, GOMAXPROCS="2", VERIF_REPLAY_TRACE=os.environ.get("VERIF_REPLAY_TRACE", ""))
        r = subprocess.run([binp, "-test.run", TESTRE, "-test.count", "1"], env=env, cwd=sc.fs)
        return r.returncode if r.returncode in (0, 1) else 2
    finally:
        sc.cleanup()

def cmd_one(pid, seed, params):
    props = load_props()
    global TESTRE
    TESTRE = "^%s$" % props[pid].get("test", "TestVerif")
    sc = Scratch()
    try:
        binp = prepare(sc, props[pid]["pkg"])
        env = dict(ENV, VERIF_PROP=pid, VERIF_ONE=str(seed), VERIF_PARAMS=params, VERIF_FS=sc.fs, GOMAXPROCS="2", VERIF_TIER=os.environ.get("VERIF_TIER", "quick"), VERIF_TWICE=os.environ.get("VERIF_TWICE", ""), VERIF_PRE=os.environ.get("VERIF_PRE", ""), VERIF_DUMP=os.environ.get("VERIF_DUMP", ""), VERIF_RCLOG=os.environ.get("VERIF_RCLOG", ""))
        r = subprocess.run([binp, "-test.run", TESTRE, "-test.count", "1"], env=env, cwd=sc.fs)
        return 0
    finally:
        sc.cleanup()

def cmd_selftest(pid, n):
    """same seeds, many processes, three GOMAXPROCS settings: the per-seed event hashes must be identical"""
    props = load_props()
    sc = Scratch()
    try:
        binp = prepare(sc, props[pid]["pkg"])
        sigs = {}
        procs = []
        for gmp in ("1", "4", "16"):
            for k in range(10):
                o = os.path.join(sc.out, "st-%s-%d.json" % (gmp, k))
                env = dict(ENV, VERIF_PROP=pid, VERIF_TIER="quick", VERIF_SEED="7", VERIF_RUNS=str(n), VERIF_SHARD="0/1", VERIF_OUT=o,
                           VERIF_REPLAY_DIR=sc.out, VERIF_FS=sc.fs, GOMAXPROCS=gmp, VERIF_HASHLOG=o + ".hashes")
                procs.append((gmp, k, o, subprocess.Popen([binp, "-test.run", TESTRE, "-test.count", "1"], env=env, stdout=subprocess.DEVNULL, stderr=subprocess.DEVNULL, cwd=sc.fs)))
        for gmp, k, o, p in procs:
            p.wait()
            try:
                h = hashlib.sha256(open(o + ".hashes", "rb").read()).hexdigest()
            except Exception as ex:
                h = "missing:%s" % ex
            sigs.setdefault(h, []).append("%s/%d" % (gmp, k))
        print("selftest %s: %d processes, %d distinct signatures" % (pid, len(procs), len(sigs)))
        if len(sigs) != 1:
            for h, who in list(sigs.items())[:6]: print(" ", h[:16], who)
            # which runs differ (line k of the hash log is run k of the shard)
            logs = [open(o + ".hashes").read().splitlines() for _, _, o, _ in procs]
            bad = sorted(set(i for l in logs[1:] for i in range(min(len(l), len(logs[0]))) if l[i] != logs[0][i]))
            print("  runs whose event hash differs between processes: %s%s" % (bad[:20], " ..." if len(bad) > 20 else ""))
            for i in bad[:3]:
                print("   run %d: %s" % (i, sorted(set(l[i] for l in logs if i < len(l)))[:4]))
            return 2
        return 0
    finally:
        sc.cleanup()

def cmd_build():
    build_tools()
    props = load_props()
    pkgs = sorted(set(c["pkg"] for c in props.values()))
    sc = Scratch()
    try:
        for pkg in pkgs:
            prepare_once = prepare(sc, pkg) if pkg == pkgs[0] else None
            if prepare_once is None:
                binp = os.path.join(sc.bin, pkg.replace("/", "_") + ".test")
                r = sh([GO, "test", "-c", "-vet=off", "-o", binp, "./" + pkg], cwd=sc.repo, check=False, quiet=True)
                if r.returncode != 0:
                    die("build of %s failed:\n%s" % (pkg, r.stdout[-6000:]))
        return 0
    finally:
        sc.cleanup()

def main():
    a = sys.argv[1:]
    if not a:
        print(__doc__); return 2
    if a[0] == "check":
        return cmd_check(a[1], a[2] if len(a) > 2 else os.environ.get("VERIF_TIER", "quick"))
    if a[0] == "replay":
        return cmd_replay(a[1], a[2])
    if a[0] == "selftest":
        return cmd_selftest(a[1], int(a[2]) if len(a) > 2 else 200)
    if a[0] == "one":
        return cmd_one(a[1], a[2], a[3] if len(a) > 3 else "")
    if a[0] == "build":
        return cmd_build()
    print(__doc__); return 2

if __name__ == "__main__":
    sys.exit(main())
