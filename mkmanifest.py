#!/usr/bin/env python3
"""Regenerates MANIFEST.json from props.json (which properties have a harness) and the texts below."""
import json, os
HERE = os.path.dirname(os.path.abspath(__file__))
props = [json.loads(l) for l in open(os.path.join(HERE, "properties.jsonl"))]
cfg = json.load(open(os.path.join(HERE, "props.json")))

NA = {
 "C15": "pure function of a string (ref.New / CommonName): no schedule, clock, I/O, peer or fault for a simulator to control; input generation alone is not deterministic simulation (DESIGN.md §5)",
 "C16": "pure functions over a finite universe (platform.Parse/Compatible/Better, DescriptorListSearch): nothing to schedule or fault; the right tool is exhaustive enumeration, outside this technique family (DESIGN.md §5)",
}
TEXT = {
 "C01": ("exploration", "seeded search over blob contents x descriptors x corruption kinds x read-slicing x drop/resume sequences against the real BlobGet path (reg and ocidir); the oracle is the statement itself: a read loop that ends cleanly delivered bytes hashing to the descriptor's digest (and of its size). Sampling, not proof.",
         "deterministic simulation: byzantine/faulty transport and stored-byte faults, seeded"),
 "C02": ("exploration", "seeded search over manifest bodies x expected-digest sources x corrupted/contradicting server replies for the fetch and re-push clauses; setter programs are executed as a workload and audited, but that clause has no schedule or fault dimension (said in DESIGN.md §5).",
         "deterministic simulation: byzantine registry replies, seeded; input-driven for the setter clause"),
 "C03": ("exploration", "seeded search over image graphs x pairings x feature sets x pre-states x option sets, each under a seeded interleaving of the concurrent copy; after every successful copy the target is audited against an independently computed closure of the source. Sampling, not proof.",
         "deterministic simulation: seeded schedule search over the concurrent copy with an end-state closure oracle"),
 "C04": ("fault_enumeration", "for each sampled copy scenario and schedule, every request position is enumerated with each fault kind, with cancellation and with process death (complete per scenario in the thorough tier, sampled in quick), plus fault pairs for short copies; the ordering invariant is evaluated by the target model at every manifest PUT and the tag/closure audit after every failure. Scenarios themselves are sampled.",
         "deterministic simulation: positional fault/cancel/crash enumeration per sampled history with online invariant"),
 "C05": ("exploration", "seeded search over blob lengths around chunk boundaries x chunk/max-put settings x declared descriptors x source reader behaviour x in-spec server behaviours x transient faults incl. lost responses; oracle: committed bytes equal the caller's stream.",
         "deterministic simulation: fault injection on the upload session, seeded"),
 "C06": ("exploration", "seeded histories over a small tag/manifest pool, sequentially against a reference map after every step, and concurrently from several tasks with the recorded invoke/return history checked for linearizability (porcupine) against the same map model.",
         "deterministic simulation: seeded histories and schedules, reference model + linearizability check"),
 "C07": ("fault_enumeration", "for each sampled history, every position between two mutating file-system calls of the operation under test is a crash point (complete per history), with torn writes; the frozen directory is audited by an independent checker and by a fresh client, then the operation is repeated.",
         "deterministic simulation: crash-point enumeration over the disk seam"),
 "C08": ("exploration", "seeded histories and schedules of copies, deletions and closes on one layout through the disk seam; the files removed by a collection are compared with an independently computed reachable set, and no removal may fall inside a running copy.",
         "deterministic simulation: seeded schedule search over concurrent copies and GC"),
 "C09": ("exploration", "seeded image graphs exported through a sliced writer, the tar audited independently, re-imported elsewhere and compared with the source closure; input-driven (no schedule or crash dimension contributes materially).",
         "deterministic simulation: seeded inputs through simulated parties and sliced streams"),
 "C10": ("exploration", "seeded histories of referrer pushes and referrer-aware deletions against a reference set, sequentially and with 2-4 concurrent updates to one subject under seeded schedules (lost-update detector at quiescence).",
         "deterministic simulation: seeded histories and schedules against a reference set model"),
 "C11": ("exploration", "seeded topologies of hosts with unique secrets, auth schemes and 401s injected at any request position of any host; a taint scan over the complete request log and the trace-level log output decides.",
         "deterministic simulation: byzantine hosts and fault injection with a taint oracle over the request log"),
 "C12": ("exploration", "seeded fault sequences over the alphabet against the real reghttp client (attempt bound, backoff spacing and Retry-After in exact simulated time, termination also against servers repeating a reply forever, mirror order), public operations with fewer transient faults than the limit compared with the model, writes never reaching mirrors. Bounded liveness by scheduler step/idle limits.",
         "deterministic simulation: scripted fault sequences, simulated clock, bounded liveness"),
 "C13": ("exploration", "seeded option programs applied to generated images; the target closure is audited independently; input/program-driven.",
         "deterministic simulation: seeded programs with an independent audit"),
 "C14": ("exploration", "seeded search over sharing patterns x pre-existing subsets x pairings x mount behaviours on a fault-free network; the oracle reads the request log and the target's write journal.",
         "deterministic simulation: request-log oracle over seeded scenarios and schedules"),
 "C17": ("exploration", "seeded search over task programs x schedules of the real internal/pqueue under a deterministic scheduler; bound checked after every scheduling step, slot conservation at quiescence, deadlock detection by the scheduler (bounded liveness). Sampling, not proof.",
         "deterministic simulation: seeded schedule search with invariant checking and deadlock detection"),
 "C18": ("exploration", "the real regsync command tree runs in-process against registry models with generated configurations and populations; the full before/after state diff is compared with an independently computed expectation, backup ordering is checked at the overwriting PUT.",
         "deterministic simulation: whole CLI in the simulator, state-diff oracle"),
 "C19": ("exploration", "the real regbot once --dry-run runs in-process with generated Lua scripts; the request log and the disk log must contain no mutation, read-only results are compared with a normal run.",
         "deterministic simulation: whole CLI in the simulator, write-freedom oracle over network and disk logs"),
 "C20": ("exploration", "byzantine registries and archives feed path-like names into artifact download, archive extraction, import and layout operations; every mutating disk call is audited through the seam. Input-driven.",
         "deterministic simulation: byzantine content with a path audit through the disk seam"),
}
NOTE = "trusts: the syntactic instrumentation preserves behaviour up to scheduling; testing/synctest quiescence; go1.26.8 vs go1.23.5 semantics; the registry model's conformance (cross-checked on regclient's own request patterns); sampling, not proof"

claimed = [p["id"] for p in props if p["id"] in cfg]
m = {"version": 1, "setup_cmd": "./verif.py build",
     "hooks": {"guard": "none - no hook is committed to /repo; instrumentation is applied to a scratch copy of the working tree by /verif/tools/instrument (built to /verif/bin/instrument) at check time",
               "enable": "verif.py rsyncs /repo to a scratch dir, runs tools/instrument (go/ast rewrite: go->simrt.Go, sync.Mutex->simrt.Mutex, yields after channel ops, os->simos shim in disk-touching packages, VerifRegOpts in regclient.New, zstd codec concurrency 1, a generated mod.VerifProcessStart), copies harness/ into internal/verif/, builds with go1.26.8 test -c",
               "baseline_off_cmd": "cd /repo && go test -mod=mod -vet=off -count=1 -timeout 25m ./...", "source_commits": [], "add_only": True},
     "engines": [{"name": "simrt-dst", "path": "/verif/verif.py", "serves_properties": claimed,
                  "kind_free_text": "deterministic simulation with fault injection: seeded scheduler over instrumented goroutines inside a testing/synctest bubble (fake clock), simulated network (http.RoundTripper) with registry models, os shim for the disk, tape-driven search with shrinking and exact replay"}],
     "checks": [], "not_applicable": [],
     "notes": "fix: commits in /repo for genuine defects and the known findings are listed in /verif/KNOWN_FINDINGS.txt; DESIGN.md explains every check"}
for p in props:
    pid = p["id"]
    if pid in cfg:
        lvl, text, tech = TEXT[pid]
        assert lvl == cfg[pid]["level"], pid
        c = {"property_id": pid, "quick_cmd": "./verif.py check %s quick" % pid, "thorough_cmd": "./verif.py check %s thorough" % pid,
             "evidence_file": "/verif/evidence/%s.json" % pid, "replay_cmd_template": "./verif.py replay %s {path}" % pid, "engine": "simrt-dst",
             "level_claimed": {"category": lvl, "text": text, "design_ref": "DESIGN.md §4 " + pid}, "level_note": NOTE, "technique": tech}
        m["checks"].append(c)
    else:
        m["not_applicable"].append({"property_id": pid, "reason": NA.get(pid, "no harness in this revision of the framework (design in DESIGN.md §4); nothing is claimed for it")})
json.dump(m, open(os.path.join(HERE, "MANIFEST.json"), "w"), indent=1)
print("claimed:", claimed)
