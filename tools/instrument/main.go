// instrument rewrites a scratch copy of regclient so that it runs under the
// deterministic scheduler in harness/simrt. It is purely syntactic, so it
// applies to whatever the tree under test contains.
//
//	R1  go f(args)                 -> simrt.Go(func(){ f(args) })
//	R2  sync.Mutex / sync.RWMutex  -> simrt.Mutex / simrt.RWMutex
//	R3  yield after channel send / receive statements, at the top of select
//	    communication clauses, after x.Wait()
//	R4  time.Sleep / time.AfterFunc -> simrt.Sleep / simrt.AfterFunc
//	R7  zstd.NewReader(r) / zstd.NewWriter(w) -> with a codec concurrency of 1 (no worker goroutines inside the dependency)
//	R5  import "os" -> simos shim in the packages that touch the disk
//	R6  regclient.New: append VerifRegOpts() to the reg scheme options
//
// Exit status 2 on any failure (infrastructure, never a verdict).
package main

import (
	"bytes"
	"fmt"
	"go/ast"
	"go/format"
	"go/parser"
	"go/token"
	"os"
	"path/filepath"
	"strconv"
	"strings"
)

const modPath = "github.com/regclient/regclient"
const simrtPath = modPath + "/internal/verif/simrt"
const simosPath = modPath + "/internal/verif/simos"

// packages (directories relative to the module root) whose "os" import is
// replaced by the disk seam
var osShimDirs = map[string]bool{
	"scheme/ocidir": true,
	"pkg/archive":   true,
	"cmd/regctl":    true,
}

func fatal(format string, a ...any) {
	fmt.Fprintf(os.Stderr, "instrument: "+format+"\n", a...)
	os.Exit(2)
}

func sel(x, s string) ast.Expr {
	return &ast.SelectorExpr{X: ast.NewIdent(x), Sel: ast.NewIdent(s)}
}

func yieldStmt(site string) ast.Stmt {
	return &ast.ExprStmt{X: &ast.CallExpr{Fun: sel("simrt", "Yield"), Args: []ast.Expr{&ast.BasicLit{Kind: token.STRING, Value: strconv.Quote(site)}}}}
}

func hasRecv(n ast.Node) bool {
	found := false
	ast.Inspect(n, func(x ast.Node) bool {
		if _, ok := x.(*ast.FuncLit); ok {
			return false
		}
		if u, ok := x.(*ast.UnaryExpr); ok && u.Op == token.ARROW {
			found = true
		}
		return true
	})
	return found
}

func isWaitCall(s ast.Stmt) bool {
	es, ok := s.(*ast.ExprStmt)
	if !ok {
		return false
	}
	c, ok := es.X.(*ast.CallExpr)
	if !ok || len(c.Args) != 0 {
		return false
	}
	se, ok := c.Fun.(*ast.SelectorExpr)
	return ok && se.Sel.Name == "Wait"
}

type rewriter struct {
	fset  *token.FileSet
	used  bool
	nGo   int
	nYld  int
	nMu   int
	nTime int
	nZstd int
	tmp   int
}

func (r *rewriter) site(p token.Pos) string {
	pos := r.fset.Position(p)
	return fmt.Sprintf("%s:%d", filepath.Base(pos.Filename), pos.Line)
}

func (r *rewriter) goStmt(st *ast.GoStmt) ast.Stmt {
	r.used = true
	r.nGo++
	call := st.Call
	if len(call.Args) == 0 {
		var fn ast.Expr
		if fl, ok := call.Fun.(*ast.FuncLit); ok {
			fn = fl
		} else {
			fn = &ast.FuncLit{Type: &ast.FuncType{Params: &ast.FieldList{}}, Body: &ast.BlockStmt{List: []ast.Stmt{&ast.ExprStmt{X: call}}}}
		}
		return &ast.ExprStmt{X: &ast.CallExpr{Fun: sel("simrt", "Go"), Args: []ast.Expr{fn}}}
	}
	// evaluate the arguments now, as a go statement does
	var lhs []ast.Expr
	var names []ast.Expr
	for range call.Args {
		r.tmp++
		n := fmt.Sprintf("verifArg%d", r.tmp)
		lhs = append(lhs, ast.NewIdent(n))
		names = append(names, ast.NewIdent(n))
	}
	if call.Ellipsis.IsValid() {
		fatal("go statement with variadic spread at %s is not supported", r.site(st.Pos()))
	}
	assign := &ast.AssignStmt{Lhs: lhs, Tok: token.DEFINE, Rhs: call.Args}
	inner := &ast.CallExpr{Fun: call.Fun, Args: names}
	fn := &ast.FuncLit{Type: &ast.FuncType{Params: &ast.FieldList{}}, Body: &ast.BlockStmt{List: []ast.Stmt{&ast.ExprStmt{X: inner}}}}
	return &ast.BlockStmt{List: []ast.Stmt{assign, &ast.ExprStmt{X: &ast.CallExpr{Fun: sel("simrt", "Go"), Args: []ast.Expr{fn}}}}}
}

func (r *rewriter) stmts(list []ast.Stmt) []ast.Stmt {
	var out []ast.Stmt
	for _, s := range list {
		switch st := s.(type) {
		case *ast.GoStmt:
			out = append(out, r.goStmt(st))
			continue
		case *ast.SendStmt:
			out = append(out, s, yieldStmt("send@"+r.site(s.Pos())))
			r.used = true
			r.nYld++
			continue
		case *ast.ExprStmt, *ast.AssignStmt:
			if hasRecv(s) {
				out = append(out, s, yieldStmt("recv@"+r.site(s.Pos())))
				r.used = true
				r.nYld++
				continue
			}
			if isWaitCall(s) {
				out = append(out, s, yieldStmt("wait@"+r.site(s.Pos())))
				r.used = true
				r.nYld++
				continue
			}
		}
		out = append(out, s)
	}
	return out
}

func (r *rewriter) Visit(n ast.Node) ast.Visitor {
	switch x := n.(type) {
	case *ast.BlockStmt:
		x.List = r.stmts(x.List)
	case *ast.CaseClause:
		x.Body = r.stmts(x.Body)
	case *ast.CommClause:
		x.Body = r.stmts(x.Body)
		if x.Comm != nil {
			x.Body = append([]ast.Stmt{yieldStmt("select@" + r.site(x.Pos()))}, x.Body...)
			r.used = true
			r.nYld++
		}
	case *ast.CallExpr:
		// R7: the zstd codec of the dependency starts worker goroutines of its own (as many as GOMAXPROCS allows);
		// with a concurrency of one it encodes and decodes on the calling goroutine, which the scheduler owns
		if se, ok := x.Fun.(*ast.SelectorExpr); ok {
			if id, ok := se.X.(*ast.Ident); ok && id.Obj == nil && id.Name == "zstd" && len(x.Args) == 1 {
				opt := ""
				switch se.Sel.Name {
				case "NewReader":
					opt = "WithDecoderConcurrency"
				case "NewWriter":
					opt = "WithEncoderConcurrency"
				}
				if opt != "" {
					x.Args = append(x.Args, &ast.CallExpr{Fun: &ast.SelectorExpr{X: ast.NewIdent("zstd"), Sel: ast.NewIdent(opt)}, Args: []ast.Expr{&ast.BasicLit{Kind: token.INT, Value: "1"}}})
					r.nZstd++
				}
			}
		}
	case *ast.SelectorExpr:
		if id, ok := x.X.(*ast.Ident); ok && id.Obj == nil {
			if id.Name == "sync" && (x.Sel.Name == "Mutex" || x.Sel.Name == "RWMutex") {
				id.Name = "simrt"
				r.used = true
				r.nMu++
			}
			if id.Name == "time" && (x.Sel.Name == "Sleep" || x.Sel.Name == "AfterFunc") {
				id.Name = "simrt"
				r.used = true
				r.nTime++
			}
		}
	}
	return r
}

func usesPkg(f *ast.File, name string) bool {
	uses := false
	ast.Inspect(f, func(n ast.Node) bool {
		if se, ok := n.(*ast.SelectorExpr); ok {
			if id, ok := se.X.(*ast.Ident); ok && id.Name == name && id.Obj == nil {
				uses = true
			}
		}
		return true
	})
	return uses
}

func addImport(f *ast.File, name, path string) {
	imp := &ast.ImportSpec{Path: &ast.BasicLit{Kind: token.STRING, Value: strconv.Quote(path)}}
	if name != "" {
		imp.Name = ast.NewIdent(name)
	}
	for _, d := range f.Decls {
		if gd, ok := d.(*ast.GenDecl); ok && gd.Tok == token.IMPORT {
			gd.Specs = append(gd.Specs, imp)
			if !gd.Lparen.IsValid() {
				gd.Lparen = gd.Pos()
				gd.Rparen = gd.End()
			}
			return
		}
	}
	f.Decls = append([]ast.Decl{&ast.GenDecl{Tok: token.IMPORT, Specs: []ast.Spec{imp}}}, f.Decls...)
}

func dropImport(f *ast.File, path string) {
	q := strconv.Quote(path)
	for _, d := range f.Decls {
		if gd, ok := d.(*ast.GenDecl); ok && gd.Tok == token.IMPORT {
			var keep []ast.Spec
			for _, s := range gd.Specs {
				if s.(*ast.ImportSpec).Path.Value != q {
					keep = append(keep, s)
				}
			}
			gd.Specs = keep
		}
	}
	var imports []*ast.ImportSpec
	for _, i := range f.Imports {
		if i.Path.Value != q {
			imports = append(imports, i)
		}
	}
	f.Imports = imports
}

// r6 injects the transport hook into regclient.New
func r6(f *ast.File) bool {
	done := false
	ast.Inspect(f, func(n ast.Node) bool {
		fd, ok := n.(*ast.FuncDecl)
		if !ok || fd.Name.Name != "New" || fd.Recv != nil || fd.Body == nil {
			return true
		}
		for i, s := range fd.Body.List {
			as, ok := s.(*ast.AssignStmt)
			if !ok || len(as.Lhs) != 1 {
				continue
			}
			ix, ok := as.Lhs[0].(*ast.IndexExpr)
			if !ok {
				continue
			}
			lit, ok := ix.Index.(*ast.BasicLit)
			if !ok || lit.Value != `"reg"` {
				continue
			}
			inject, err := parser.ParseExpr(`func() { if VerifRegOpts != nil { rc.regOpts = append(rc.regOpts, VerifRegOpts()...) } }`)
			if err != nil {
				fatal("r6 parse: %v", err)
			}
			body := inject.(*ast.FuncLit).Body.List
			nl := append([]ast.Stmt{}, fd.Body.List[:i]...)
			nl = append(nl, body...)
			nl = append(nl, fd.Body.List[i:]...)
			fd.Body.List = nl
			done = true
			return false
		}
		return true
	})
	return done
}

func main() {
	if len(os.Args) != 2 {
		fatal("usage: instrument <scratch copy of the repository>")
	}
	root := os.Args[1]
	files, r6done := 0, false
	var tot rewriter
	err := filepath.Walk(root, func(p string, fi os.FileInfo, err error) error {
		if err != nil {
			return err
		}
		rel, _ := filepath.Rel(root, p)
		if fi.IsDir() {
			if strings.HasPrefix(rel, "internal/verif") || fi.Name() == "testdata" || fi.Name() == ".git" || fi.Name() == "vendor" {
				return filepath.SkipDir
			}
			return nil
		}
		if !strings.HasSuffix(p, ".go") || strings.HasSuffix(p, "_test.go") {
			return nil
		}
		fset := token.NewFileSet()
		f, err := parser.ParseFile(fset, p, nil, parser.ParseComments)
		if err != nil {
			fatal("parse %s: %v", p, err)
		}
		r := &rewriter{fset: fset}
		ast.Walk(r, f)
		changed := r.used || r.nZstd > 0
		if r.used {
			addImport(f, "", simrtPath)
			if !usesPkg(f, "sync") {
				dropImport(f, "sync")
			}
			if !usesPkg(f, "time") {
				dropImport(f, "time")
			}
		}
		dir := filepath.ToSlash(filepath.Dir(rel))
		if osShimDirs[dir] {
			for _, i := range f.Imports {
				if i.Path.Value == `"os"` && i.Name == nil {
					i.Path.Value = strconv.Quote(simosPath)
					i.Name = ast.NewIdent("os")
					changed = true
				}
			}
		}
		if rel == "regclient.go" {
			if !r6(f) {
				fatal("R6: anchor statement rc.schemes[\"reg\"] = … not found in regclient.New")
			}
			r6done = true
			changed = true
		}
		if !changed {
			return nil
		}
		var buf bytes.Buffer
		if err := format.Node(&buf, fset, f); err != nil {
			fatal("format %s: %v", p, err)
		}
		if err := os.WriteFile(p, buf.Bytes(), 0o644); err != nil {
			fatal("write %s: %v", p, err)
		}
		files++
		tot.nGo += r.nGo
		tot.nYld += r.nYld
		tot.nMu += r.nMu
		tot.nTime += r.nTime
		tot.nZstd += r.nZstd
		return nil
	})
	if err != nil {
		fatal("%v", err)
	}
	if !r6done {
		fatal("R6: regclient.go not found")
	}
	hook := "package regclient\n\nimport \"" + modPath + "/scheme/reg\"\n\n// VerifRegOpts is set by the verification harness (scratch copy only).\nvar VerifRegOpts func() []reg.Opts\n"
	if err := os.WriteFile(filepath.Join(root, "verif_hook.go"), []byte(hook), 0o644); err != nil {
		fatal("%v", err)
	}
	// mod: the process start time (recorded in the history of added layers) becomes settable, so that a run can
	// model separate invocations at different simulated times
	modHook := "package mod\n\n// VerifProcessStart re-reads the start time as a new process would (scratch copy only).\nfunc VerifProcessStart() { timeStart = timeNow() }\n"
	if _, err := os.Stat(filepath.Join(root, "mod", "time.go")); err == nil {
		if err := os.WriteFile(filepath.Join(root, "mod", "verif_hook.go"), []byte(modHook), 0o644); err != nil {
			fatal("%v", err)
		}
	}
	fmt.Printf("instrument: %d files rewritten; go=%d yields=%d mutex=%d time=%d zstd=%d\n", files, tot.nGo, tot.nYld, tot.nMu, tot.nTime, tot.nZstd)
}
