module verif/instrument

go 1.22
