#!/usr/bin/env python3
"""Runs a tier of every claimed check for several VERIF_SEED values on the current tree and prints one line per run.
   sweep.py quick 2 3 5      (evidence files are rewritten by each run, as always)"""
import json, os, subprocess, sys, time
VERIF = os.path.dirname(os.path.dirname(os.path.abspath(__file__)))
tier = sys.argv[1]
seeds = sys.argv[2:] or ["1"]
ids = sorted(json.load(open(os.path.join(VERIF, "props.json"))).keys())
only = os.environ.get("SWEEP_ONLY", "").split(",") if os.environ.get("SWEEP_ONLY") else None
bad = 0
for sd in seeds:
    for pid in ids:
        if only and pid not in only:
            continue
        t0 = time.time()
        r = subprocess.run(["./verif.py", "check", pid, tier], cwd=VERIF, env=dict(os.environ, VERIF_SEED=sd), stdout=subprocess.PIPE, stderr=subprocess.STDOUT, text=True)
        lines = r.stdout.splitlines()
        summ = [l for l in lines if l.startswith(pid + " " + tier)]
        notes = [l for l in lines if l.startswith(("VIOLATION", "INFRA-ERROR"))]
        print("seed=%s %s exit=%d %.0fs %s" % (sd, pid, r.returncode, time.time() - t0, summ[-1] if summ else "(no summary)"), flush=True)
        for n in notes[:6]:
            print("    " + n[:400], flush=True)
        for l in lines:
            if "[verif] violation" in l:
                print("    " + l[:500], flush=True)
        if r.returncode != 0:
            bad += 1
        if tier == "thorough":
            # keep the thorough tier's evidence beside the per-property file (which the next quick run rewrites)
            import shutil
            os.makedirs(os.path.join(VERIF, "evidence", "thorough"), exist_ok=True)
            src = os.path.join(VERIF, "evidence", pid + ".json")
            if os.path.exists(src):
                shutil.copy(src, os.path.join(VERIF, "evidence", "thorough", "%s-seed%s.json" % (pid, sd)))
print("runs with a non-zero exit: %d" % bad)
