// Package regmodel is a small executable model of an OCI distribution
// registry with behaviour knobs. It is a stub in the evidence sense: the
// trusted reference the client under test talks to.
package regmodel

import (
	"crypto/sha256"
	"crypto/sha512"
	"encoding/base64"
	"encoding/hex"
	"encoding/json"
	"fmt"
	"net/http"
	"net/url"
	"regexp"
	"sort"
	"strconv"
	"strings"
	"time"

	"github.com/regclient/regclient/internal/verif/simnet"
	"github.com/regclient/regclient/internal/verif/simrt"
)

// Digest computes "<alg>:<hex>" of b.
func Digest(alg string, b []byte) string {
	switch alg {
	case "sha512":
		s := sha512.Sum512(b)
		return "sha512:" + hex.EncodeToString(s[:])
	default:
		s := sha256.Sum256(b)
		return "sha256:" + hex.EncodeToString(s[:])
	}
}

// FallbackTag is the referrers fallback tag of the distribution spec:
// "<alg>-<hex>" with the algorithm truncated to 32 and the hex to 64 characters.
func FallbackTag(d string) string {
	i := strings.IndexByte(d, ':')
	if i < 0 {
		return d
	}
	alg, hex := d[:i], d[i+1:]
	if len(alg) > 32 {
		alg = alg[:32]
	}
	if len(hex) > 64 {
		hex = hex[:64]
	}
	return alg + "-" + hex
}

// SignedPayload extracts the canonical payload of a libtrust pretty-signed document (nil if it is not one).
func SignedPayload(raw []byte) []byte {
	var doc struct {
		Signatures []struct {
			Protected string `json:"protected"`
		} `json:"signatures"`
	}
	if json.Unmarshal(raw, &doc) != nil || len(doc.Signatures) == 0 {
		return nil
	}
	pb, err := base64.RawURLEncoding.DecodeString(strings.TrimRight(doc.Signatures[0].Protected, "="))
	if err != nil {
		return nil
	}
	var prot struct {
		FormatLength int    `json:"formatLength"`
		FormatTail   string `json:"formatTail"`
	}
	if json.Unmarshal(pb, &prot) != nil || prot.FormatLength > len(raw) || prot.FormatLength <= 0 {
		return nil
	}
	tail, err := base64.RawURLEncoding.DecodeString(strings.TrimRight(prot.FormatTail, "="))
	if err != nil {
		return nil
	}
	return append(append([]byte{}, raw[:prot.FormatLength]...), tail...)
}

// ManifestDigest is the digest a registry assigns to a manifest body of the given media type.
func ManifestDigest(alg, mt string, raw []byte) string {
	if mt == "application/vnd.docker.distribution.manifest.v1+prettyjws" {
		if p := SignedPayload(raw); p != nil {
			return Digest(alg, p)
		}
	}
	return Digest(alg, raw)
}

func algOf(d string) string {
	if i := strings.IndexByte(d, ':'); i > 0 {
		return d[:i]
	}
	return "sha256"
}

var digestRe = regexp.MustCompile(`^(sha256:[0-9a-f]{64}|sha512:[0-9a-f]{128})$`)

func IsDigest(s string) bool { return digestRe.MatchString(s) }

type Manifest struct {
	MediaType string
	Raw       []byte
}

type Upload struct {
	ID        string
	Data      []byte
	Gen       int // bumps when the location changes
	Patches   int
	LastChunk int // length of the last accepted PATCH body
	cut       bool
	Moved     bool // LocRelocate: the session now lives under uploads/moved/
	movedSaid bool // the absolute new location has been announced once
}

type Repo struct {
	Blobs     map[string][]byte
	Manifests map[string]*Manifest
	Tags      map[string]string
	Uploads   map[string]*Upload
}

func newRepo() *Repo {
	return &Repo{Blobs: map[string][]byte{}, Manifests: map[string]*Manifest{}, Tags: map[string]string{}, Uploads: map[string]*Upload{}}
}

// Write is a journal entry.
type Write struct {
	Seq    int    // exchange number
	Kind   string // blob, manifest, tag, mount, del-manifest, del-tag, del-blob
	Repo   string
	Digest string
	Tag    string
}

// Knobs select behaviour, all within the distribution spec unless noted.
type Knobs struct {
	Mount                 int    // 0 granted when source has the blob, 1 declined with 202+Location, 2 unsupported (202 upload as if no mount)
	AnonymousMount        bool   // grant a mount without "from" when any repository holds the blob
	TagPageEmptyOnce      bool   // a paged tag listing contains one page without entries that still carries a next link
	MountNoLocation       bool   // a granted mount answers 201 without a Location header (a fronting proxy that drops it)
	ChunkMin              int    // OCI-Chunk-Min-Length announced on upload POST (0: none)
	ChunkMinEnforce       bool   // a chunk that follows one below the minimum is refused with 400
	LinkSecondLine        bool   // paged tag listings carry two Link header lines, rel="next" on the second
	LocRelocate           bool   // after the first chunk the session moves to another path prefix (announced once as an absolute path), later Locations are relative to that new directory, and the old URL answers 404
	LocAbsolute           bool   // absolute upload Location
	LocQuery              bool   // Location carries a query string
	LocChanges            bool   // Location changes on every PATCH
	PartialEvery          int    // >0: every n-th PATCH accepts only part of the chunk (202 with a shorter Range)
	PartialMaxBytes       int    // >0: every PATCH accepts at most this many bytes (a destination with a small receive window): long runs of partial acceptance
	Partial416            bool   // partial acceptance reported as 416 with Range/Location on the *next* out-of-order chunk instead
	Early201              bool   // PATCH of the last chunk answers 201 (ECR style)
	RefuseMonoPut         bool   // PUT with a body on a fresh session is refused with 400 (forces chunked fall-back)
	TagDelete             bool   // DELETE of a tag supported
	Referrers             bool   // referrers API present
	ReferrersPage         int    // >0: page size of the referrers API
	TagPage               int    // >0: server-side maximum page size of tags/list
	NoHeadDigest          bool   // HEAD/GET of a manifest without Docker-Content-Digest
	Strict                bool   // reject manifests whose content references are missing
	BlobRedirect          string // non-empty: blob GETs are answered with 307 to this host
	BlobRedirectScheme    string // scheme of the redirect (default https)
	ManifestPutNoLocation bool
	DeleteBlob            bool
	NoRangeOnJSON         bool          // manifests and listings ignore Range (as most real registries do)
	PutKeepsThenFails     int           // >0: the first PUT carrying a body stores that many bytes of it in the session and fails with 502 (a proxy cut the transfer)
	RateLimit             int           // >0: manifest replies carry RateLimit-Limit / RateLimit-Remaining
	RateRemain0           int           // remaining count at simulated time zero
	RateRecover           time.Duration // the remaining count grows by one per this much simulated time
	MountDeclineFrom      string        // mounts whose source repository starts with this prefix are declined (per-repository permissions)
}

// Reg is one registry host.
type Reg struct {
	Name    string
	Repos   map[string]*Repo
	K       Knobs
	Journal []Write
	upSeq   int
	patchN  int
	// OnManifestPut is called (atomically with the commit) for every accepted manifest.
	OnManifestPut func(seq int, repo, ref, dig string, raw []byte)
	// OnWrite is called for every journal entry.
	OnWrite func(w Write)
	// CDN receives redirected blob GETs.
	ReadOnly bool // mirrors: refuse writes with 405 (still logged by simnet)
}

func New(name string) *Reg {
	return &Reg{Name: name, Repos: map[string]*Repo{}, K: Knobs{TagDelete: true, Referrers: true}}
}

func (g *Reg) Repo(name string) *Repo {
	r := g.Repos[name]
	if r == nil {
		r = newRepo()
		g.Repos[name] = r
	}
	return r
}

func (g *Reg) journal(w Write) {
	g.Journal = append(g.Journal, w)
	if g.OnWrite != nil {
		g.OnWrite(w)
	}
}

// direct state manipulation for pre-states (no journal)
func (g *Reg) PutBlob(repo string, b []byte) string {
	d := Digest("sha256", b)
	g.Repo(repo).Blobs[d] = b
	return d
}
func (g *Reg) PutBlobAlg(repo, alg string, b []byte) string {
	d := Digest(alg, b)
	g.Repo(repo).Blobs[d] = b
	return d
}
func (g *Reg) PutManifest(repo, mt string, raw []byte, tag string) string {
	d := Digest("sha256", raw)
	g.Repo(repo).Manifests[d] = &Manifest{MediaType: mt, Raw: raw}
	if tag != "" {
		g.Repo(repo).Tags[tag] = d
	}
	return d
}
func (g *Reg) PutManifestAlg(repo, alg, mt string, raw []byte, tag string) string {
	d := Digest(alg, raw)
	g.Repo(repo).Manifests[d] = &Manifest{MediaType: mt, Raw: raw}
	if tag != "" {
		g.Repo(repo).Tags[tag] = d
	}
	return d
}

func errBody(code string) []byte {
	return []byte(`{"errors":[{"code":"` + code + `","message":"` + code + `"}]}`)
}

func resp(status int, code string) *simnet.Response {
	r := simnet.NewResponse(status)
	if code != "" {
		r.Body = errBody(code)
		r.Header.Set("Content-Type", "application/json")
	}
	return r
}

var pathRe = regexp.MustCompile(`^/v2/(.+)/(manifests|blobs|tags|referrers)/(.*)$`)

// Serve implements simnet.Host. Every successful GET honours a Range request
// header (the client resumes truncated bodies with it).
func (g *Reg) Serve(req *simnet.Request) *simnet.Response {
	r := g.serve(req)
	if g.K.RateLimit > 0 && strings.Contains(req.Path, "/manifests/") && (req.Method == "GET" || req.Method == "HEAD") && r.Status == 200 {
		// pull rate limit headers as Docker Hub sends them; the remaining count recovers with (simulated) time
		remain := g.K.RateRemain0
		if s := simrt.Cur(); s != nil && g.K.RateRecover > 0 {
			remain += int(s.Elapsed() / g.K.RateRecover)
		}
		if remain > g.K.RateLimit {
			remain = g.K.RateLimit
		}
		r.Header.Set("RateLimit-Limit", strconv.Itoa(g.K.RateLimit)+";w=21600")
		r.Header.Set("RateLimit-Remaining", strconv.Itoa(remain)+";w=21600")
	}
	if req.Method == "GET" && r.Status == 200 && req.Header.Get("Range") != "" && r.Header.Get("Content-Range") == "" && !g.K.NoRangeOnJSON {
		rr := ServeBytes(req, r.Body, "")
		for k, v := range r.Header {
			if k != "Content-Length" {
				rr.Header[k] = v
			}
		}
		return rr
	}
	return r
}

func (g *Reg) serve(req *simnet.Request) *simnet.Response {
	p := req.Path
	if p == "/v2/" || p == "/v2" {
		return resp(200, "")
	}
	if p == "/v2/_catalog" {
		var names []string
		for n := range g.Repos {
			names = append(names, n)
		}
		sort.Strings(names)
		b, _ := json.Marshal(map[string]any{"repositories": names})
		r := resp(200, "")
		r.Header.Set("Content-Type", "application/json")
		r.Body = b
		return r
	}
	if strings.HasPrefix(p, "/cdn/") {
		return (&CDN{Origin: g}).Serve(req)
	}
	m := pathRe.FindStringSubmatch(p)
	if m == nil {
		return resp(404, "NOT_FOUND")
	}
	repo, kind, rest := m[1], m[2], m[3]
	q, _ := url.ParseQuery(req.Query)
	write := simnet.IsWrite(req.Method)
	if write && g.ReadOnly {
		return resp(405, "UNSUPPORTED")
	}
	switch kind {
	case "manifests":
		return g.manifests(req, repo, rest, q)
	case "blobs":
		if strings.HasPrefix(rest, "uploads/") || rest == "uploads" {
			return g.uploads(req, repo, strings.TrimPrefix(strings.TrimPrefix(rest, "uploads"), "/"), q)
		}
		return g.blobs(req, repo, rest)
	case "tags":
		if rest == "list" && req.Method == "GET" {
			return g.tagList(req, repo, q)
		}
	case "referrers":
		if req.Method == "GET" {
			return g.referrers(req, repo, rest, q)
		}
	}
	return resp(404, "NOT_FOUND")
}

func (g *Reg) manifests(req *simnet.Request, repo, ref string, q url.Values) *simnet.Response {
	rp := g.Repos[repo]
	switch req.Method {
	case "GET", "HEAD":
		if rp == nil {
			return resp(404, "NAME_UNKNOWN")
		}
		d := ref
		if !IsDigest(ref) {
			d = rp.Tags[ref]
		}
		mf := rp.Manifests[d]
		if mf == nil {
			return resp(404, "MANIFEST_UNKNOWN")
		}
		r := resp(200, "")
		r.Header.Set("Content-Type", mf.MediaType)
		if !g.K.NoHeadDigest {
			r.Header.Set("Docker-Content-Digest", d)
		}
		r.Header.Set("Content-Length", strconv.Itoa(len(mf.Raw)))
		r.Body = mf.Raw
		return r
	case "PUT":
		raw := req.Body
		alg := "sha256"
		if IsDigest(ref) {
			alg = algOf(ref)
		} else if dq := q.Get("digest"); dq != "" && IsDigest(dq) {
			alg = algOf(dq)
		}
		d := ManifestDigest(alg, req.Header.Get("Content-Type"), raw)
		if IsDigest(ref) && ref != d {
			return resp(400, "DIGEST_INVALID")
		}
		var probe struct {
			MediaType string `json:"mediaType"`
			Subject   *struct {
				Digest string `json:"digest"`
			} `json:"subject"`
		}
		if err := json.Unmarshal(raw, &probe); err != nil {
			return resp(400, "MANIFEST_INVALID")
		}
		mt := req.Header.Get("Content-Type")
		if mt == "" {
			mt = probe.MediaType
		}
		if g.K.Strict {
			for _, c := range ContentRefs(raw) {
				if c.External {
					continue // (registries do not verify layers that carry URLs)
				}
				if c.Manifest {
					if g.Repo(repo).Manifests[c.Digest] == nil {
						return resp(400, "MANIFEST_BLOB_UNKNOWN")
					}
				} else if _, ok := g.Repo(repo).Blobs[c.Digest]; !ok {
					return resp(400, "MANIFEST_BLOB_UNKNOWN")
				}
			}
		}
		rp = g.Repo(repo)
		if g.OnManifestPut != nil {
			g.OnManifestPut(req.Seq, repo, ref, d, raw)
		}
		rp.Manifests[d] = &Manifest{MediaType: mt, Raw: append([]byte(nil), raw...)}
		g.journal(Write{Seq: req.Seq, Kind: "manifest", Repo: repo, Digest: d})
		if !IsDigest(ref) {
			rp.Tags[ref] = d
			g.journal(Write{Seq: req.Seq, Kind: "tag", Repo: repo, Digest: d, Tag: ref})
		}
		r := resp(201, "")
		if !g.K.ManifestPutNoLocation {
			r.Header.Set("Location", "/v2/"+repo+"/manifests/"+d)
		}
		r.Header.Set("Docker-Content-Digest", d)
		if probe.Subject != nil && probe.Subject.Digest != "" && g.K.Referrers {
			r.Header.Set("OCI-Subject", probe.Subject.Digest)
		}
		return r
	case "DELETE":
		if rp == nil {
			return resp(404, "NAME_UNKNOWN")
		}
		if IsDigest(ref) {
			if rp.Manifests[ref] == nil {
				return resp(404, "MANIFEST_UNKNOWN")
			}
			delete(rp.Manifests, ref)
			g.journal(Write{Seq: req.Seq, Kind: "del-manifest", Repo: repo, Digest: ref})
			var ts []string
			for t, d := range rp.Tags {
				if d == ref {
					ts = append(ts, t)
				}
			}
			sort.Strings(ts)
			for _, t := range ts {
				delete(rp.Tags, t)
				g.journal(Write{Seq: req.Seq, Kind: "del-tag", Repo: repo, Digest: ref, Tag: t})
			}
			return resp(202, "")
		}
		if !g.K.TagDelete {
			return resp(405, "UNSUPPORTED")
		}
		d, ok := rp.Tags[ref]
		if !ok {
			return resp(404, "MANIFEST_UNKNOWN")
		}
		delete(rp.Tags, ref)
		g.journal(Write{Seq: req.Seq, Kind: "del-tag", Repo: repo, Digest: d, Tag: ref})
		return resp(202, "")
	}
	return resp(405, "UNSUPPORTED")
}

var rangeRe = regexp.MustCompile(`^bytes=(\d+)-(\d*)$`)

func (g *Reg) blobs(req *simnet.Request, repo, dig string) *simnet.Response {
	rp := g.Repos[repo]
	switch req.Method {
	case "GET", "HEAD":
		if rp == nil {
			return resp(404, "NAME_UNKNOWN")
		}
		b, ok := rp.Blobs[dig]
		if !ok {
			return resp(404, "BLOB_UNKNOWN")
		}
		if g.K.BlobRedirect != "" && req.Method == "GET" {
			r := resp(307, "")
			sch := g.K.BlobRedirectScheme
			if sch == "" {
				sch = "https"
			}
			r.Header.Set("Location", sch+"://"+g.K.BlobRedirect+"/cdn/"+repo+"/"+dig)
			return r
		}
		return ServeBytes(req, b, dig)
	case "DELETE":
		if !g.K.DeleteBlob {
			return resp(405, "UNSUPPORTED")
		}
		if rp == nil {
			return resp(404, "NAME_UNKNOWN")
		}
		if _, ok := rp.Blobs[dig]; !ok {
			return resp(404, "BLOB_UNKNOWN")
		}
		delete(rp.Blobs, dig)
		g.journal(Write{Seq: req.Seq, Kind: "del-blob", Repo: repo, Digest: dig})
		return resp(202, "")
	}
	return resp(405, "UNSUPPORTED")
}

// ServeBytes answers a GET/HEAD for content with Range support.
func ServeBytes(req *simnet.Request, b []byte, dig string) *simnet.Response {
	r := resp(200, "")
	r.Header.Set("Content-Type", "application/octet-stream")
	if dig != "" {
		r.Header.Set("Docker-Content-Digest", dig)
	}
	if rg := req.Header.Get("Range"); rg != "" {
		m := rangeRe.FindStringSubmatch(rg)
		if m == nil {
			return resp(416, "RANGE_INVALID")
		}
		start, _ := strconv.Atoi(m[1])
		end := len(b) - 1
		if m[2] != "" {
			e, _ := strconv.Atoi(m[2])
			if e < end {
				end = e
			}
		}
		if start > len(b) || start > end+1 {
			rr := resp(416, "RANGE_INVALID")
			rr.Header.Set("Content-Range", fmt.Sprintf("bytes */%d", len(b)))
			return rr
		}
		if start == len(b) {
			rr := resp(416, "RANGE_INVALID")
			rr.Header.Set("Content-Range", fmt.Sprintf("bytes */%d", len(b)))
			return rr
		}
		r.Status = 206
		r.Header.Set("Content-Range", fmt.Sprintf("bytes %d-%d/%d", start, end, len(b)))
		r.Body = b[start : end+1]
		r.Header.Set("Content-Length", strconv.Itoa(len(r.Body)))
		return r
	}
	r.Header.Set("Content-Length", strconv.Itoa(len(b)))
	r.Body = b
	return r
}

func (g *Reg) location(req *simnet.Request, repo string, u *Upload) string {
	loc := "/v2/" + repo + "/blobs/uploads/" + u.ID
	if u.Moved {
		if u.movedSaid {
			loc = u.ID // relative to the directory the session moved to
		} else {
			loc = "/v2/" + repo + "/blobs/uploads/moved/" + u.ID
			u.movedSaid = true
		}
	}
	if g.K.LocChanges {
		loc += "-g" + strconv.Itoa(u.Gen)
	}
	if g.K.LocQuery {
		loc += "?state=s" + strconv.Itoa(u.Gen) + "&x=1"
	}
	if g.K.LocAbsolute && strings.HasPrefix(loc, "/") {
		loc = req.Scheme + "://" + req.Host + loc
	}
	return loc
}

func rangeHdr(n int) string {
	if n <= 0 {
		return "0-0"
	}
	return "0-" + strconv.Itoa(n-1)
}

func (g *Reg) findUpload(rp *Repo, id string) *Upload {
	if rp == nil {
		return nil
	}
	if i := strings.Index(id, "-g"); i > 0 {
		gen, _ := strconv.Atoi(id[i+2:])
		u := rp.Uploads[id[:i]]
		if u != nil && g.K.LocChanges && gen != u.Gen {
			return nil // stale location
		}
		return u
	}
	return rp.Uploads[id]
}

func (g *Reg) commitBlob(req *simnet.Request, repo string, u *Upload, dq string) *simnet.Response {
	if !IsDigest(dq) {
		return resp(400, "DIGEST_INVALID")
	}
	if Digest(algOf(dq), u.Data) != dq {
		return resp(400, "DIGEST_INVALID")
	}
	rp := g.Repo(repo)
	rp.Blobs[dq] = u.Data
	delete(rp.Uploads, u.ID)
	g.journal(Write{Seq: req.Seq, Kind: "blob", Repo: repo, Digest: dq})
	r := resp(201, "")
	r.Header.Set("Location", "/v2/"+repo+"/blobs/"+dq)
	r.Header.Set("Docker-Content-Digest", dq)
	return r
}

func (g *Reg) uploads(req *simnet.Request, repo, id string, q url.Values) *simnet.Response {
	rp := g.Repos[repo]
	if id == "" {
		if req.Method != "POST" {
			return resp(405, "UNSUPPORTED")
		}
		rp = g.Repo(repo)
		if md := q.Get("mount"); md != "" {
			from := q.Get("from")
			granted := false
			switch {
			case g.K.MountDeclineFrom != "" && strings.HasPrefix(from, g.K.MountDeclineFrom):
				// declined for this source repository only
			case g.K.Mount == 0 && from != "":
				if src := g.Repos[from]; src != nil {
					if b, ok := src.Blobs[md]; ok {
						rp.Blobs[md] = b
						granted = true
					}
				}
			case from == "" && g.K.AnonymousMount:
				var names []string
				for n := range g.Repos {
					names = append(names, n)
				}
				sort.Strings(names)
				for _, n := range names {
					if b, ok := g.Repos[n].Blobs[md]; ok {
						rp.Blobs[md] = b
						granted = true
						break
					}
				}
			}
			if granted {
				g.journal(Write{Seq: req.Seq, Kind: "mount", Repo: repo, Digest: md})
				r := resp(201, "")
				if !g.K.MountNoLocation {
					r.Header.Set("Location", "/v2/"+repo+"/blobs/"+md)
				}
				r.Header.Set("Docker-Content-Digest", md)
				return r
			}
			// declined: fall through to a regular upload session (202)
		}
		g.upSeq++
		u := &Upload{ID: "u" + strconv.Itoa(g.upSeq)}
		rp.Uploads[u.ID] = u
		if dq := q.Get("digest"); dq != "" && len(req.Body) > 0 {
			u.Data = append([]byte(nil), req.Body...)
			return g.commitBlob(req, repo, u, dq)
		}
		r := resp(202, "")
		r.Header.Set("Location", g.location(req, repo, u))
		r.Header.Set("Range", "0-0")
		r.Header.Set("Docker-Upload-UUID", u.ID)
		if g.K.ChunkMin > 0 {
			r.Header.Set("OCI-Chunk-Min-Length", strconv.Itoa(g.K.ChunkMin))
		}
		return r
	}
	viaMoved := strings.HasPrefix(id, "moved/")
	u := g.findUpload(rp, strings.TrimPrefix(id, "moved/"))
	if u == nil || u.Moved != viaMoved {
		return resp(404, "BLOB_UPLOAD_UNKNOWN") // (also: the URL the session has moved away from)
	}
	switch req.Method {
	case "GET":
		r := resp(204, "")
		r.Header.Set("Location", g.location(req, repo, u))
		r.Header.Set("Range", rangeHdr(len(u.Data)))
		r.Header.Set("Docker-Upload-UUID", u.ID)
		return r
	case "DELETE":
		delete(rp.Uploads, u.ID)
		return resp(202, "")
	case "PATCH":
		g.patchN++
		u.Patches++
		start := len(u.Data)
		if cr := req.Header.Get("Content-Range"); cr != "" {
			parts := strings.SplitN(cr, "-", 2)
			s, err := strconv.Atoi(parts[0])
			if err != nil || len(parts) != 2 {
				return resp(400, "RANGE_INVALID")
			}
			e, err := strconv.Atoi(parts[1])
			if err != nil || e-s+1 != len(req.Body) {
				return resp(400, "RANGE_INVALID")
			}
			start = s
		}
		if start != len(u.Data) {
			r := resp(416, "RANGE_INVALID")
			r.Header.Set("Location", g.location(req, repo, u))
			r.Header.Set("Range", rangeHdr(len(u.Data)))
			r.Header.Set("Docker-Upload-UUID", u.ID)
			return r
		}
		body := req.Body
		// a chunk below the announced minimum is only acceptable as the last one; the model cannot know that
		// when the chunk arrives (the spec lets the final chunk be short), but it knows when another chunk follows
		if g.K.ChunkMin > 0 && g.K.ChunkMinEnforce && u.LastChunk > 0 && u.LastChunk < g.K.ChunkMin {
			return resp(400, "SIZE_INVALID")
		}
		u.LastChunk = len(body)
		if g.K.PartialEvery > 0 && g.patchN%g.K.PartialEvery == 0 && len(body) > 1 {
			body = body[:1+len(body)/2] // accept only part; at least one byte so that the Range reply is unambiguous
		}
		if g.K.PartialMaxBytes > 0 && len(body) > g.K.PartialMaxBytes {
			body = body[:g.K.PartialMaxBytes]
		}
		u.Data = append(u.Data, body...)
		if g.K.LocChanges {
			u.Gen++
		}
		if g.K.LocRelocate && !u.Moved {
			u.Moved = true
		}
		status := 202
		if g.K.Early201 && u.Patches > 1 && len(body) == len(req.Body) && len(body) > 0 && false {
			status = 201
		}
		r := resp(status, "")
		r.Header.Set("Location", g.location(req, repo, u))
		r.Header.Set("Range", rangeHdr(len(u.Data)))
		r.Header.Set("Docker-Upload-UUID", u.ID)
		return r
	case "PUT":
		dq := q.Get("digest")
		if len(req.Body) > 0 {
			if g.K.RefuseMonoPut && len(u.Data) == 0 {
				return resp(400, "UNSUPPORTED")
			}
			if g.K.PutKeepsThenFails > 0 && !u.cut && len(u.Data) == 0 && len(req.Body) > 1 {
				keep := g.K.PutKeepsThenFails
				if keep > len(req.Body)-1 {
					keep = len(req.Body) - 1
				}
				u.Data = append(u.Data, req.Body[:keep]...)
				u.cut = true
				return resp(502, "BAD_GATEWAY")
			}
			if cr := req.Header.Get("Content-Range"); cr != "" {
				parts := strings.SplitN(cr, "-", 2)
				s, _ := strconv.Atoi(parts[0])
				if s != len(u.Data) {
					r := resp(416, "RANGE_INVALID")
					r.Header.Set("Location", g.location(req, repo, u))
					r.Header.Set("Range", rangeHdr(len(u.Data)))
					return r
				}
			}
			// the digest is verified over what the session would hold; a mismatch leaves the session unchanged
			tmp := &Upload{ID: u.ID, Data: append(append([]byte(nil), u.Data...), req.Body...)}
			r := g.commitBlob(req, repo, tmp, dq)
			return r
		}
		return g.commitBlob(req, repo, u, dq)
	}
	return resp(405, "UNSUPPORTED")
}

func (g *Reg) tagList(req *simnet.Request, repo string, q url.Values) *simnet.Response {
	rp := g.Repos[repo]
	if rp == nil {
		return resp(404, "NAME_UNKNOWN")
	}
	var tags []string
	for t := range rp.Tags {
		tags = append(tags, t)
	}
	sort.Strings(tags)
	last := q.Get("last")
	if last != "" {
		i := sort.SearchStrings(tags, last)
		if i < len(tags) && tags[i] == last {
			i++
		}
		tags = tags[i:]
	}
	n := 0
	if v := q.Get("n"); v != "" {
		n, _ = strconv.Atoi(v)
	}
	page := g.K.TagPage
	if n > 0 && (page == 0 || n < page) {
		page = n
	}
	if g.K.TagPageEmptyOnce && last != "" && q.Get("resume") == "" && len(tags) > 0 {
		// a page without entries that still links to the next one (every tag of that key range was deleted
		// between two scans of a registry that pages by key range): the listing goes on behind it
		r := resp(200, "")
		nq := url.Values{}
		nq.Set("last", last)
		nq.Set("resume", "1")
		if n > 0 {
			nq.Set("n", strconv.Itoa(n))
		}
		r.Header.Set("Link", fmt.Sprintf("</v2/%s/tags/list?%s>; rel=\"next\"", repo, nq.Encode()))
		b, _ := json.Marshal(map[string]any{"name": repo, "tags": []string{}})
		r.Header.Set("Content-Type", "application/json")
		r.Body = b
		return r
	}
	r := resp(200, "")
	if page > 0 && len(tags) > page {
		tags = tags[:page]
		nq := url.Values{}
		nq.Set("last", tags[len(tags)-1])
		if n > 0 {
			nq.Set("n", strconv.Itoa(n))
		}
		if g.K.LinkSecondLine {
			// several Link header lines, the one with rel="next" not first (a proxy or registry that also links the first page)
			r.Header.Add("Link", fmt.Sprintf("</v2/%s/tags/list>; rel=\"first\"", repo))
			r.Header.Add("Link", fmt.Sprintf("</v2/%s/tags/list?%s>; rel=\"next\"", repo, nq.Encode()))
		} else {
			r.Header.Set("Link", fmt.Sprintf("</v2/%s/tags/list?%s>; rel=\"next\"", repo, nq.Encode()))
		}
	}
	if tags == nil {
		tags = []string{}
	}
	b, _ := json.Marshal(map[string]any{"name": repo, "tags": tags})
	r.Header.Set("Content-Type", "application/json")
	r.Body = b
	return r
}

// Referrer descriptor as served by the API.
type refDesc struct {
	MediaType    string            `json:"mediaType"`
	Digest       string            `json:"digest"`
	Size         int               `json:"size"`
	ArtifactType string            `json:"artifactType,omitempty"`
	Annotations  map[string]string `json:"annotations,omitempty"`
}

func (g *Reg) referrers(req *simnet.Request, repo, dig string, q url.Values) *simnet.Response {
	if !g.K.Referrers {
		return resp(404, "NOT_FOUND")
	}
	if !IsDigest(dig) {
		return resp(400, "DIGEST_INVALID")
	}
	var list []refDesc
	if rp := g.Repos[repo]; rp != nil {
		var ds []string
		for d := range rp.Manifests {
			ds = append(ds, d)
		}
		sort.Strings(ds)
		for _, d := range ds {
			mf := rp.Manifests[d]
			var p struct {
				MediaType    string `json:"mediaType"`
				ArtifactType string `json:"artifactType"`
				Config       *struct {
					MediaType string `json:"mediaType"`
				} `json:"config"`
				Subject *struct {
					Digest string `json:"digest"`
				} `json:"subject"`
				Annotations map[string]string `json:"annotations"`
			}
			if json.Unmarshal(mf.Raw, &p) != nil || p.Subject == nil || p.Subject.Digest != dig {
				continue
			}
			at := p.ArtifactType
			if at == "" && p.Config != nil {
				at = p.Config.MediaType
			}
			list = append(list, refDesc{MediaType: mf.MediaType, Digest: d, Size: len(mf.Raw), ArtifactType: at, Annotations: p.Annotations})
		}
	}
	r := resp(200, "")
	if at := q.Get("artifactType"); at != "" {
		var f []refDesc
		for _, e := range list {
			if e.ArtifactType == at {
				f = append(f, e)
			}
		}
		list = f
		r.Header.Set("OCI-Filters-Applied", "artifactType")
	}
	off := 0
	if v := q.Get("off"); v != "" {
		off, _ = strconv.Atoi(v)
	}
	if off > len(list) {
		off = len(list)
	}
	list = list[off:]
	if g.K.ReferrersPage > 0 && len(list) > g.K.ReferrersPage {
		list = list[:g.K.ReferrersPage]
		nq := url.Values{}
		nq.Set("off", strconv.Itoa(off+g.K.ReferrersPage))
		if at := q.Get("artifactType"); at != "" {
			nq.Set("artifactType", at)
		}
		r.Header.Set("Link", fmt.Sprintf("</v2/%s/referrers/%s?%s>; rel=\"next\"", repo, dig, nq.Encode()))
	}
	if list == nil {
		list = []refDesc{}
	}
	b, _ := json.Marshal(map[string]any{"schemaVersion": 2, "mediaType": "application/vnd.oci.image.index.v1+json", "manifests": list})
	r.Header.Set("Content-Type", "application/vnd.oci.image.index.v1+json")
	r.Body = b
	return r
}

// Ref is a content reference found in a manifest body.
type Ref struct {
	Digest    string
	Size      int64
	Manifest  bool // index entry that is itself a manifest
	External  bool // layer with urls
	Inline    bool // descriptor carries data
	Field     string
	MediaType string
}

func isManifestType(mt string) bool {
	switch mt {
	case "application/vnd.oci.image.manifest.v1+json", "application/vnd.oci.image.index.v1+json",
		"application/vnd.docker.distribution.manifest.v2+json", "application/vnd.docker.distribution.manifest.list.v2+json",
		"application/vnd.docker.distribution.manifest.v1+json", "application/vnd.docker.distribution.manifest.v1+prettyjws",
		"application/vnd.oci.artifact.manifest.v1+json":
		return true
	}
	return false
}

// ContentRefs extracts, with its own JSON parsing (no regclient code), every
// digest a manifest body references as content: config, layers, blobs (OCI
// artifact), index entries, schema1 fsLayers. The subject is not content.
func ContentRefs(raw []byte) []Ref {
	var p struct {
		Config    *descJ  `json:"config"`
		Layers    []descJ `json:"layers"`
		Blobs     []descJ `json:"blobs"`
		Manifests []descJ `json:"manifests"`
		FSLayers  []struct {
			BlobSum string `json:"blobSum"`
		} `json:"fsLayers"`
	}
	if json.Unmarshal(raw, &p) != nil {
		return nil
	}
	var out []Ref
	add := func(d descJ, field string, man bool) {
		if d.Digest == "" {
			return
		}
		out = append(out, Ref{Digest: d.Digest, Size: d.Size, Manifest: man, External: len(d.URLs) > 0, Inline: d.Data != "", Field: field, MediaType: d.MediaType})
	}
	if p.Config != nil {
		add(*p.Config, "config", false)
	}
	for _, l := range p.Layers {
		add(l, "layers", false)
	}
	for _, l := range p.Blobs {
		add(l, "blobs", false)
	}
	for _, m := range p.Manifests {
		add(m, "manifests", isManifestType(m.MediaType))
	}
	for _, l := range p.FSLayers {
		out = append(out, Ref{Digest: l.BlobSum, Field: "fsLayers"})
	}
	return out
}

type descJ struct {
	MediaType string   `json:"mediaType"`
	Digest    string   `json:"digest"`
	Size      int64    `json:"size"`
	URLs      []string `json:"urls"`
	Data      string   `json:"data"`
}

// Subject returns the subject digest of a manifest body ("" if none).
func Subject(raw []byte) string {
	var p struct {
		Subject *descJ `json:"subject"`
	}
	if json.Unmarshal(raw, &p) != nil || p.Subject == nil {
		return ""
	}
	return p.Subject.Digest
}

// CDN is a host that serves redirected blob downloads for a registry.
type CDN struct {
	Origin *Reg
}

func (c *CDN) Serve(req *simnet.Request) *simnet.Response {
	parts := strings.Split(strings.TrimPrefix(req.Path, "/cdn/"), "/")
	if !strings.HasPrefix(req.Path, "/cdn/") || len(parts) < 2 {
		return resp(404, "NOT_FOUND")
	}
	dig := parts[len(parts)-1]
	repo := strings.Join(parts[:len(parts)-1], "/")
	rp := c.Origin.Repos[repo]
	if rp == nil {
		return resp(404, "NOT_FOUND")
	}
	b, ok := rp.Blobs[dig]
	if !ok {
		return resp(404, "NOT_FOUND")
	}
	if req.Method != "GET" && req.Method != "HEAD" {
		return resp(405, "UNSUPPORTED")
	}
	return ServeBytes(req, b, "")
}

var _ = http.StatusOK
