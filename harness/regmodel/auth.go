package regmodel

import (
	"encoding/base64"
	"encoding/json"
	"fmt"
	"net/url"
	"sort"
	"strings"
	"time"

	"github.com/regclient/regclient/internal/verif/simnet"
)

// AuthReg wraps a registry model with an authentication scheme.
type AuthReg struct {
	Inner  simnet.Host
	Name   string
	Scheme string // none, basic, bearer
	User   string
	Pass   string
	// bearer
	Realm   string // URL of the token endpoint this registry names
	Service string
	Tokens  *TokenServer
	// byzantine extras
	ExtraChallenges []string // additional WWW-Authenticate values sent along
	Challenges      int
	NowFn           func() time.Time
}

func (a *AuthReg) challenge(req *simnet.Request, scope string) *simnet.Response {
	a.Challenges++
	r := simnet.NewResponse(401)
	switch a.Scheme {
	case "basic":
		r.Header.Add("WWW-Authenticate", `Basic realm="`+a.Name+`"`)
	case "bearer":
		v := fmt.Sprintf(`Bearer realm="%s",service="%s"`, a.Realm, a.Service)
		if scope != "" {
			v += `,scope="` + scope + `"`
		}
		r.Header.Add("WWW-Authenticate", v)
	}
	for _, x := range a.ExtraChallenges {
		r.Header.Add("WWW-Authenticate", x)
	}
	r.Body = []byte(`{"errors":[{"code":"UNAUTHORIZED"}]}`)
	return r
}

func scopeFor(req *simnet.Request) string {
	m := pathRe.FindStringSubmatch(req.Path)
	if m == nil {
		return ""
	}
	act := "pull"
	if simnet.IsWrite(req.Method) {
		act = "pull,push"
	}
	return "repository:" + m[1] + ":" + act
}

func (a *AuthReg) Serve(req *simnet.Request) *simnet.Response {
	if a.Scheme == "none" || a.Scheme == "" {
		return a.Inner.Serve(req)
	}
	ah := req.Header.Get("Authorization")
	switch a.Scheme {
	case "basic":
		want := "Basic " + base64.StdEncoding.EncodeToString([]byte(a.User+":"+a.Pass))
		if ah == want {
			return a.Inner.Serve(req)
		}
	case "bearer":
		if strings.HasPrefix(ah, "Bearer ") && a.Tokens.Valid(strings.TrimPrefix(ah, "Bearer "), scopeFor(req)) {
			return a.Inner.Serve(req)
		}
	}
	return a.challenge(req, scopeFor(req))
}

// TokenServer issues bearer tokens for one registry.
type TokenServer struct {
	Owner       string
	User, Pass  string
	IdentityTok string // accepted as refresh token on POST
	ExpiresIn   int
	GiveRefresh bool
	issued      map[string]tokInfo
	Refresh     map[string]bool
	n           int
	NowFn       func() time.Time
	Requests    int
}

type tokInfo struct {
	at     time.Time
	scopes []string
	authed bool // issued upon presentation of this owner's credentials (an anonymous token is nobody's secret)
}

func NewTokenServer(owner, user, pass, identity string) *TokenServer {
	return &TokenServer{Owner: owner, User: user, Pass: pass, IdentityTok: identity, ExpiresIn: 300, issued: map[string]tokInfo{}, Refresh: map[string]bool{}, NowFn: time.Now}
}

// AllTokens lists every bearer and refresh token issued so far.
func (t *TokenServer) AllTokens() []string {
	var out []string
	for k, v := range t.issued {
		if v.authed {
			out = append(out, k)
		}
	}
	for k := range t.Refresh {
		out = append(out, k)
	}
	sort.Strings(out)
	return out
}

func (t *TokenServer) Valid(tok, scope string) bool {
	ti, ok := t.issued[tok]
	if !ok {
		return false
	}
	if t.NowFn().Sub(ti.at) > time.Duration(t.ExpiresIn)*time.Second {
		return false
	}
	if scope == "" {
		return true
	}
	// repository:<name>:<actions>
	parts := strings.Split(scope, ":")
	for _, s := range ti.scopes {
		sp := strings.Split(s, ":")
		if len(sp) == 3 && len(parts) == 3 && sp[1] == parts[1] {
			okAll := true
			for _, a := range strings.Split(parts[2], ",") {
				if !strings.Contains(","+sp[2]+",", ","+a+",") {
					okAll = false
				}
			}
			if okAll {
				return true
			}
		}
	}
	return false
}

func (t *TokenServer) issue(scopes []string, authed bool) *simnet.Response {
	t.n++
	tok := fmt.Sprintf("bearer-%s-%04d-%x", t.Owner, t.n, uint32(t.n*2654435761))
	t.issued[tok] = tokInfo{at: t.NowFn(), scopes: scopes, authed: authed}
	body := map[string]any{"token": tok, "access_token": tok, "expires_in": t.ExpiresIn, "issued_at": t.NowFn().UTC().Format(time.RFC3339)}
	if t.GiveRefresh {
		rt := fmt.Sprintf("refresh-%s-%04d-%x", t.Owner, t.n, uint32(t.n*40503))
		t.Refresh[rt] = true
		body["refresh_token"] = rt
	}
	b, _ := json.Marshal(body)
	r := simnet.NewResponse(200)
	r.Header.Set("Content-Type", "application/json")
	r.Body = b
	return r
}

func (t *TokenServer) Serve(req *simnet.Request) *simnet.Response {
	t.Requests++
	deny := func() *simnet.Response {
		r := simnet.NewResponse(401)
		r.Body = []byte(`{"details":"denied"}`)
		return r
	}
	switch req.Method {
	case "GET":
		q, _ := url.ParseQuery(req.Query)
		want := "Basic " + base64.StdEncoding.EncodeToString([]byte(t.User+":"+t.Pass))
		if t.User != "" && req.Header.Get("Authorization") != want {
			return deny()
		}
		return t.issue(q["scope"], t.User != "")
	case "POST":
		f, _ := url.ParseQuery(string(req.Body))
		scopes := strings.Fields(f.Get("scope"))
		switch f.Get("grant_type") {
		case "refresh_token":
			rt := f.Get("refresh_token")
			if rt == t.IdentityTok && rt != "" || t.Refresh[rt] {
				return t.issue(scopes, true)
			}
		case "password":
			if f.Get("username") == t.User && f.Get("password") == t.Pass && t.User != "" {
				return t.issue(scopes, true)
			}
		}
		return deny()
	}
	return simnet.NewResponse(405)
}
