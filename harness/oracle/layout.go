package oracle

import (
	"encoding/json"
	"fmt"
	"os"
	"path/filepath"
	"regexp"
	"sort"

	"github.com/regclient/regclient/internal/verif/regmodel"
)

var hex64 = regexp.MustCompile(`^[0-9a-f]{64}$`)
var hex128 = regexp.MustCompile(`^[0-9a-f]{128}$`)

// AuditLayout is the independent checker of an OCI layout directory: file
// integrity under blobs/, oci-layout and index.json well-formedness.
// missingOK: files that did not exist before the interrupted operation may still be missing.
func AuditLayout(dir string, layoutMayBeMissing bool) []string {
	var out []string
	for _, alg := range []string{"sha256", "sha512"} {
		ents, err := os.ReadDir(filepath.Join(dir, "blobs", alg))
		if err != nil {
			continue
		}
		for _, en := range ents {
			name := en.Name()
			wf := (alg == "sha256" && hex64.MatchString(name)) || (alg == "sha512" && hex128.MatchString(name))
			if !wf || en.IsDir() {
				continue
			}
			b, err := os.ReadFile(filepath.Join(dir, "blobs", alg, name))
			if err != nil {
				out = append(out, fmt.Sprintf("blobs/%s/%s unreadable: %v", alg, name[:12], err))
				continue
			}
			if regmodel.Digest(alg, b) != alg+":"+name {
				out = append(out, fmt.Sprintf("file blobs/%s/%s… does not contain the content its name promises (%d bytes)", alg, name[:12], len(b)))
			}
		}
	}
	lb, err := os.ReadFile(filepath.Join(dir, "oci-layout"))
	if err != nil {
		if !layoutMayBeMissing {
			out = append(out, "oci-layout missing")
		}
	} else {
		var l struct {
			V string `json:"imageLayoutVersion"`
		}
		if json.Unmarshal(lb, &l) != nil || l.V != "1.0.0" {
			out = append(out, fmt.Sprintf("oci-layout is not a valid layout marker (%d bytes: %q)", len(lb), string(lb)))
		}
	}
	ib, err := os.ReadFile(filepath.Join(dir, "index.json"))
	if err != nil {
		if !layoutMayBeMissing {
			out = append(out, "index.json missing")
		}
	} else {
		var ix struct {
			SchemaVersion int               `json:"schemaVersion"`
			Manifests     []json.RawMessage `json:"manifests"`
		}
		if err := json.Unmarshal(ib, &ix); err != nil {
			out = append(out, fmt.Sprintf("index.json is not complete JSON (%d bytes): %v", len(ib), err))
		}
	}
	sort.Strings(out)
	return out
}

// TagSnapshot returns tag -> digest of a layout ("" dir or unreadable index: empty).
func TagSnapshot(dir string) map[string]string {
	out := map[string]string{}
	s := LayoutStore{Dir: dir}
	for _, t := range s.Tags() {
		d, _ := s.Tag(t)
		out[t] = d
	}
	return out
}

// TagEntryCounts returns how many index entries carry each tag name.
func TagEntryCounts(dir string) map[string]int {
	out := map[string]int{}
	ix, err := LayoutStore{Dir: dir}.index()
	if err != nil {
		return out
	}
	for _, m := range ix.Manifests {
		if t := tagOf(m.Annotations); t != "" {
			out[t]++
		}
	}
	return out
}

// ImageComplete checks that the image at digest d is complete in st (closure present, bytes hashing to names).
func ImageComplete(st Store, d string, o WalkOpts) []string {
	needs, _, bad := Closure(st, d, o)
	out := append([]string{}, bad...)
	out = append(out, CheckPresent(st, st, needs)...)
	return out
}
