// Package oracle holds the independent checkers: closure walks over raw
// stores (registry model maps or layout files) with their own JSON parsing.
package oracle

import (
	"bytes"
	"encoding/json"
	"fmt"
	"os"
	"path/filepath"
	"sort"
	"strings"

	"github.com/regclient/regclient/internal/verif/regmodel"
)

// Store is raw read access to a repository (registry model) or a layout.
type Store interface {
	Manifest(d string) (raw []byte, mt string, ok bool)
	Blob(d string) ([]byte, bool)
	Tag(t string) (string, bool)
	Tags() []string
	// ReferrersOf lists digests of manifests recorded as referrers of subject
	// (API view when the store has one, otherwise the fallback tag).
	ReferrersOf(subject string) []string
	Name() string
}

// RegStore views one repository of a registry model.
type RegStore struct {
	Reg  *regmodel.Reg
	Repo string
}

func (s RegStore) Name() string { return s.Reg.Name + "/" + s.Repo }
func (s RegStore) Manifest(d string) ([]byte, string, bool) {
	rp := s.Reg.Repos[s.Repo]
	if rp == nil {
		return nil, "", false
	}
	m := rp.Manifests[d]
	if m == nil {
		return nil, "", false
	}
	return m.Raw, m.MediaType, true
}
func (s RegStore) Blob(d string) ([]byte, bool) {
	rp := s.Reg.Repos[s.Repo]
	if rp == nil {
		return nil, false
	}
	b, ok := rp.Blobs[d]
	return b, ok
}
func (s RegStore) Tag(t string) (string, bool) {
	rp := s.Reg.Repos[s.Repo]
	if rp == nil {
		return "", false
	}
	d, ok := rp.Tags[t]
	return d, ok
}
func (s RegStore) Tags() []string {
	rp := s.Reg.Repos[s.Repo]
	if rp == nil {
		return nil
	}
	var out []string
	for t := range rp.Tags {
		out = append(out, t)
	}
	sort.Strings(out)
	return out
}
func (s RegStore) ReferrersOf(subject string) []string {
	rp := s.Reg.Repos[s.Repo]
	if rp == nil {
		return nil
	}
	var out []string
	if s.Reg.K.Referrers {
		for d, m := range rp.Manifests {
			if regmodel.Subject(m.Raw) == subject {
				out = append(out, d)
			}
		}
		sort.Strings(out)
		return out
	}
	return fallbackEntries(s, subject)
}

func fallbackEntries(s Store, subject string) []string {
	d, ok := s.Tag(regmodel.FallbackTag(subject))
	if !ok {
		return nil
	}
	raw, _, ok := s.Manifest(d)
	if !ok {
		return nil
	}
	var out []string
	for _, r := range regmodel.ContentRefs(raw) {
		if r.Field == "manifests" {
			out = append(out, r.Digest)
		}
	}
	return out
}

// LayoutStore views an OCI layout directory through plain file reads.
type LayoutStore struct {
	Dir string
}

type layoutIndex struct {
	SchemaVersion int `json:"schemaVersion"`
	Manifests     []struct {
		MediaType   string            `json:"mediaType"`
		Digest      string            `json:"digest"`
		Size        int64             `json:"size"`
		Annotations map[string]string `json:"annotations"`
	} `json:"manifests"`
}

func (s LayoutStore) Name() string { return "layout:" + filepath.Base(s.Dir) }
func (s LayoutStore) index() (*layoutIndex, error) {
	b, err := os.ReadFile(filepath.Join(s.Dir, "index.json"))
	if err != nil {
		return nil, err
	}
	var ix layoutIndex
	if err := json.Unmarshal(b, &ix); err != nil {
		return nil, err
	}
	return &ix, nil
}
func (s LayoutStore) file(d string) ([]byte, bool) {
	i := strings.IndexByte(d, ':')
	if i < 0 {
		return nil, false
	}
	b, err := os.ReadFile(filepath.Join(s.Dir, "blobs", d[:i], d[i+1:]))
	if err != nil {
		return nil, false
	}
	return b, true
}
func (s LayoutStore) Manifest(d string) ([]byte, string, bool) {
	b, ok := s.file(d)
	if !ok {
		return nil, "", false
	}
	var p struct {
		MediaType string `json:"mediaType"`
	}
	if json.Unmarshal(b, &p) != nil {
		return nil, "", false
	}
	return b, p.MediaType, true
}
func (s LayoutStore) Blob(d string) ([]byte, bool) { return s.file(d) }

// tagOf returns the tag an index entry records ("" if none); ref.name may be
// a bare tag or a full image name written by other tools.
func tagOf(annot map[string]string) string {
	n := annot["org.opencontainers.image.ref.name"]
	if n == "" {
		return ""
	}
	if i := strings.LastIndexByte(n, ':'); i >= 0 && !strings.Contains(n[i:], "/") {
		return n[i+1:]
	}
	if strings.ContainsAny(n, "/") {
		return ""
	}
	return n
}
func (s LayoutStore) Tag(t string) (string, bool) {
	ix, err := s.index()
	if err != nil {
		return "", false
	}
	for _, m := range ix.Manifests {
		if tagOf(m.Annotations) == t {
			return m.Digest, true
		}
	}
	return "", false
}
func (s LayoutStore) Tags() []string {
	ix, err := s.index()
	if err != nil {
		return nil
	}
	var out []string
	for _, m := range ix.Manifests {
		if t := tagOf(m.Annotations); t != "" {
			out = append(out, t)
		}
	}
	sort.Strings(out)
	return out
}
func (s LayoutStore) ReferrersOf(subject string) []string { return fallbackEntries(s, subject) }

// IndexDigests lists every digest in index.json (tagged or not).
func (s LayoutStore) IndexDigests() []string {
	ix, err := s.index()
	if err != nil {
		return nil
	}
	var out []string
	for _, m := range ix.Manifests {
		out = append(out, m.Digest)
	}
	return out
}

// Need is one required item of a closure.
type Need struct {
	Digest     string
	Manifest   bool
	Why        string
	ReferrerOf string // set when the manifest is needed as a referrer of this subject
}

// WalkOpts select what belongs to the closure.
type WalkOpts struct {
	Referrers       bool
	ReferrerTypes   []string // artifact type filter (empty: all)
	DigestTags      bool
	IncludeExternal bool
	// Trusted reports manifests whose content below is not required
	// ("already equal at the target and no recursive copy requested").
	Trusted func(d string, root bool) bool
}

// Closure computes what must exist for the image at root to be complete,
// walking the source store. Problems in the source itself are returned in bad.
func Closure(src Store, root string, o WalkOpts) (needs []Need, tags map[string]string, bad []string) {
	seen := map[string]bool{}
	tags = map[string]string{}
	refOf := ""
	// under: the manifest sits below one that is trusted to be complete; its own presence and
	// content are then not demanded, but referrers and digest-tags hanging off it still are
	var visit func(d, why string, isRoot, under bool)
	visit = func(d, why string, isRoot, under bool) {
		if seen["m"+d] {
			return
		}
		seen["m"+d] = true
		raw, _, ok := src.Manifest(d)
		if !ok {
			if !under {
				bad = append(bad, "source lacks manifest "+d+" ("+why+")")
			}
			return
		}
		if !under {
			needs = append(needs, Need{Digest: d, Manifest: true, Why: why, ReferrerOf: refOf})
		}
		refOf = ""
		trusted := under || (o.Trusted != nil && o.Trusted(d, isRoot))
		for _, r := range regmodel.ContentRefs(raw) {
			switch {
			case r.Manifest:
				visit(r.Digest, "entry of "+short(d), false, trusted)
			case r.External && !o.IncludeExternal:
			default:
				if _, _, isMan := src.Manifest(r.Digest); isMan && r.Field == "manifests" {
					// an index entry with an unknown media type that is in fact a manifest
					visit(r.Digest, "entry of "+short(d), false, trusted)
					continue
				}
				if !trusted && !seen["b"+r.Digest] {
					seen["b"+r.Digest] = true
					needs = append(needs, Need{Digest: r.Digest, Why: r.Field + " of " + short(d)})
				}
			}
		}
		if o.Referrers {
			for _, rd := range src.ReferrersOf(d) {
				if len(o.ReferrerTypes) > 0 {
					raw, _, ok := src.Manifest(rd)
					if !ok || !matchType(raw, o.ReferrerTypes) {
						continue
					}
				}
				refOf = d
				visit(rd, "referrer of "+short(d), false, false)
				refOf = ""
			}
		}
		if o.DigestTags {
			prefix := strings.Replace(d, ":", "-", 1)
			for _, t := range src.Tags() {
				if strings.HasPrefix(t, prefix) && t != prefix {
					td, _ := src.Tag(t)
					tags[t] = td
					visit(td, "digest-tag "+t[len(t)-4:], false, false)
				}
			}
		}
	}
	visit(root, "root", true, false)
	return
}

func matchType(raw []byte, types []string) bool {
	var p struct {
		ArtifactType string `json:"artifactType"`
		Config       *struct {
			MediaType string `json:"mediaType"`
		} `json:"config"`
	}
	if json.Unmarshal(raw, &p) != nil {
		return false
	}
	at := p.ArtifactType
	if at == "" && p.Config != nil {
		at = p.Config.MediaType
	}
	for _, t := range types {
		if t == at {
			return true
		}
	}
	return false
}

func short(d string) string {
	if len(d) > 19 {
		return d[:19]
	}
	return d
}

// CheckPresent verifies every need exists in tgt with bytes identical to src.
func CheckPresent(src, tgt Store, needs []Need) []string {
	var out []string
	for _, n := range needs {
		if n.Manifest {
			a, _, _ := src.Manifest(n.Digest)
			b, _, ok := tgt.Manifest(n.Digest)
			if !ok {
				out = append(out, fmt.Sprintf("manifest %s (%s) missing at %s", short(n.Digest), n.Why, tgt.Name()))
			} else if !bytes.Equal(a, b) {
				out = append(out, fmt.Sprintf("manifest %s (%s) differs at %s", short(n.Digest), n.Why, tgt.Name()))
			}
			continue
		}
		a, okA := src.Blob(n.Digest)
		b, ok := tgt.Blob(n.Digest)
		if !ok {
			out = append(out, fmt.Sprintf("blob %s (%s) missing at %s", short(n.Digest), n.Why, tgt.Name()))
		} else if okA && !bytes.Equal(a, b) {
			out = append(out, fmt.Sprintf("blob %s (%s) differs at %s", short(n.Digest), n.Why, tgt.Name()))
		} else if regmodel.Digest(strings.SplitN(n.Digest, ":", 2)[0], b) != n.Digest {
			out = append(out, fmt.Sprintf("blob %s (%s) at %s does not hash to its name", short(n.Digest), n.Why, tgt.Name()))
		}
	}
	return out
}

// ContentComplete checks that every content reference of manifest raw is
// present in st (hosted blobs and child manifests; externals and the subject
// excluded). Used for "whatever was written remains a set of complete images".
func ContentComplete(st Store, raw []byte) []string {
	var out []string
	for _, r := range regmodel.ContentRefs(raw) {
		if r.External {
			continue
		}
		if r.Manifest {
			if _, _, ok := st.Manifest(r.Digest); !ok {
				out = append(out, "manifest "+short(r.Digest))
			}
			continue
		}
		if _, ok := st.Blob(r.Digest); !ok {
			if _, _, ok := st.Manifest(r.Digest); !ok {
				out = append(out, r.Field+" "+short(r.Digest))
			}
		}
	}
	return out
}
