// Package simrt is the deterministic scheduler that instrumented regclient
// code and the harnesses run under. It is copied into the scratch copy of the
// repository at check time; nothing in /repo imports it.
//
// One simulation is active per process at a time. Every goroutine of the code
// under test is a task; tasks only run between two scheduler decisions, one at
// a time, and which one runs next is decided by the tape (see tape.go).
package simrt

import (
	"bytes"
	"fmt"
	"hash/fnv"
	"os"
	"runtime"
	"runtime/debug"
	"sort"
	"strconv"
	"strings"
	"sync"
	"sync/atomic"
	"testing/synctest"
	"time"
)

type waiter struct {
	t    *task
	ch   chan struct{}
	site string
}

type task struct {
	id    string
	spawn int
	site  string // last yield site
	ord   []int  // numeric id components for ordering
}

// Sched is one simulation.
type Sched struct {
	mu      sync.Mutex
	parked  []*waiter
	wake    chan struct{}
	tasks   map[int64]*task
	live    int
	unknown int
	timers  int

	Tape *Tape

	Steps       int
	MaxSteps    int
	MaxIdle     time.Duration // simulated time with no runnable task before a deadlock is declared
	TaskPanic   string        // first panic raised in a spawned task
	Deadlock    bool
	StepLimit   bool
	Aborted     bool
	Contended   int
	ilHash      uint64 // hash over decisions at contention points
	evHash      uint64 // hash over every event
	Trace       []string
	KeepTrace   bool
	Start       time.Time
	lastTask    string
	Policy      int
	slowTask    string
	DeadReport  string
	scrubs      [][2]string
	rootDone    bool
	LeakedTasks int
	OnStep      func() // invariant hook, runs on the scheduler goroutine between two steps
}

var cur atomic.Pointer[Sched]

// owners maps goroutine ids to the simulation they belong to, so that a
// goroutine left over from an earlier (aborted) simulation can never take
// part in a later one.
var owners struct {
	mu sync.Mutex
	m  map[int64]*Sched
}

func setOwner(g int64, s *Sched) {
	owners.mu.Lock()
	if owners.m == nil {
		owners.m = map[int64]*Sched{}
	}
	if s == nil {
		delete(owners.m, g)
	} else {
		owners.m[g] = s
	}
	owners.mu.Unlock()
}

func ownerOf(g int64) *Sched {
	owners.mu.Lock()
	defer owners.mu.Unlock()
	return owners.m[g]
}

// mine returns the simulation the calling goroutine belongs to: nil when no
// simulation runs. A goroutine of a finished simulation blocks forever.
func mine() *Sched {
	s := cur.Load()
	g := goid()
	o := ownerOf(g)
	if o != nil && o != s {
		select {} // stale goroutine of an earlier simulation
	}
	if s != nil && o == nil {
		setOwner(g, s)
	}
	return s
}

// Active reports whether a simulation is running.
func Active() bool { return cur.Load() != nil }

// Cur returns the running simulation or nil.
func Cur() *Sched { return cur.Load() }

func goid() int64 {
	var buf [64]byte
	n := runtime.Stack(buf[:], false)
	b := buf[10:n]
	i := bytes.IndexByte(b, ' ')
	id, _ := strconv.ParseInt(string(b[:i]), 10, 64)
	return id
}

// New creates a simulation driven by the tape.
func New(t *Tape) *Sched {
	return &Sched{wake: make(chan struct{}, 1), tasks: map[int64]*task{}, Tape: t,
		MaxSteps: 200000, MaxIdle: 6 * time.Hour, ilHash: 14695981039346656037, evHash: 14695981039346656037}
}

func parseOrd(id string) []int {
	var out []int
	for _, p := range strings.Split(id, ".") {
		n, err := strconv.Atoi(strings.TrimLeft(p, "xt"))
		if err != nil {
			n = 1 << 20
		}
		if strings.HasPrefix(p, "x") {
			n += 1 << 21
		} else if strings.HasPrefix(p, "t") {
			n += 1 << 22
		}
		out = append(out, n)
	}
	return out
}

func lessOrd(a, b []int) bool {
	for i := 0; i < len(a) && i < len(b); i++ {
		if a[i] != b[i] {
			return a[i] < b[i]
		}
	}
	return len(a) < len(b)
}

func newTask(id string) *task { return &task{id: id, ord: parseOrd(id)} }

func (s *Sched) me() *task {
	g := goid()
	s.mu.Lock()
	defer s.mu.Unlock()
	t := s.tasks[g]
	if t == nil {
		// a goroutine the instrumenter did not see (started by a library); it
		// is named by the order in which such goroutines first reach a yield.
		s.unknown++
		t = newTask("x" + strconv.Itoa(s.unknown))
		s.tasks[g] = t
	}
	return t
}

// TaskID returns the id of the calling task ("" outside a simulation).
func TaskID() string {
	s := cur.Load()
	if s == nil {
		return ""
	}
	return s.me().id
}

func (s *Sched) mix(h *uint64, str string) {
	x := *h
	for i := 0; i < len(str); i++ {
		x ^= uint64(str[i])
		x *= 1099511628211
	}
	x ^= 0xff
	x *= 1099511628211
	*h = x
}

// Event appends a line to the event log (hashed always, kept when KeepTrace).
func (s *Sched) Event(str string) {
	s.mu.Lock()
	for _, sc := range s.scrubs {
		if strings.Contains(str, sc[0]) {
			str = strings.ReplaceAll(str, sc[0], sc[1])
		}
	}
	s.mix(&s.evHash, str)
	if s.KeepTrace {
		s.Trace = append(s.Trace, str)
	}
	s.mu.Unlock()
}

// Event logs to the running simulation, if any.
func Event(format string, a ...any) {
	s := cur.Load()
	if s == nil {
		return
	}
	if len(a) == 0 {
		s.Event(format)
		return
	}
	s.Event(fmt.Sprintf(format, a...))
}

// Scrub makes the event log independent of run-specific strings (temp dirs).
func (s *Sched) Scrub(from, to string) {
	s.mu.Lock()
	s.scrubs = append(s.scrubs, [2]string{from, to})
	s.mu.Unlock()
}

func (s *Sched) EventHash() string      { return fmt.Sprintf("%016x", s.evHash) }
func (s *Sched) InterleaveHash() uint64 { return s.ilHash }

func (s *Sched) signal() {
	select {
	case s.wake <- struct{}{}:
	default:
	}
}

// Go starts f as a new task. Outside a simulation it is a plain go statement.
func Go(f func()) {
	s := cur.Load()
	if s == nil {
		go f()
		return
	}
	p := s.me()
	s.mu.Lock()
	p.spawn++
	id := p.id + "." + strconv.Itoa(p.spawn)
	s.live++
	s.mu.Unlock()
	go s.runTask(id, f)
}

func (s *Sched) runTask(id string, f func()) {
	g := goid()
	setOwner(g, s)
	s.mu.Lock()
	s.tasks[g] = newTask(id)
	s.mu.Unlock()
	defer func() {
		setOwner(g, nil)
		s.mu.Lock()
		delete(s.tasks, g)
		s.live--
		s.mu.Unlock()
		s.signal()
	}()
	defer func() {
		// a panic in a task of the code under test ends that task, not the worker process; the run reports it
		if r := recover(); r != nil {
			s.mu.Lock()
			if s.TaskPanic == "" {
				s.TaskPanic = fmt.Sprint(r) + "\n" + string(debug.Stack())
			}
			s.mu.Unlock()
		}
	}()
	Yield("start")
	f()
}

// AfterFunc is time.AfterFunc whose callback runs as a task.
func AfterFunc(d time.Duration, f func()) *time.Timer {
	s := cur.Load()
	if s == nil {
		return time.AfterFunc(d, f)
	}
	s.mu.Lock()
	s.timers++
	id := "t" + strconv.Itoa(s.timers)
	s.mu.Unlock()
	return time.AfterFunc(d, func() {
		if cur.Load() != s {
			return
		}
		s.mu.Lock()
		s.live++
		s.mu.Unlock()
		s.runTask(id, f)
	})
}

// Sleep is time.Sleep followed by a scheduling point.
func Sleep(d time.Duration) {
	time.Sleep(d)
	Yield("sleep")
}

// Yield parks the calling task until the scheduler releases it.
func Yield(site string) {
	s := mine()
	if s == nil {
		return
	}
	t := s.me()
	w := &waiter{t: t, ch: make(chan struct{}), site: site}
	s.mu.Lock()
	if s.Aborted {
		s.mu.Unlock()
		select {} // the simulation is over; this goroutine is abandoned
	}
	t.site = site
	s.parked = append(s.parked, w)
	s.mu.Unlock()
	s.signal()
	<-w.ch
}

// Policies for mapping tape draws to the next task; the recorded value is
// always the index into the id-sorted list of parked tasks, so a replay does
// not depend on the policy.
const (
	PolUniform = iota
	PolSticky  // keep running the task that ran last with probability 7/8
	PolDFS     // lowest task id first with probability 7/8
	PolSlow    // one designated task is released only when nothing else can run (7/8)
	PolLast    // highest task id first with probability 3/4
	numPolicies
)

func (s *Sched) pick(n int) int {
	tp := s.Tape
	if tp.Replaying("sched") {
		return tp.Choose("sched", n, "pick")
	}
	// generation mode: raw draws are not recorded, the resulting index is
	r := tp.Raw("sched")
	idx := int(r % uint64(n))
	bias := (r >> 32) % 8
	switch s.Policy {
	case PolSticky:
		if bias != 0 {
			for i, w := range s.parked {
				if w.t.id == s.lastTask {
					idx = i
				}
			}
		}
	case PolDFS:
		if bias != 0 {
			idx = 0
		}
	case PolLast:
		if bias > 1 {
			idx = n - 1
		}
	case PolSlow:
		if bias != 0 && s.parked[idx].t.id == s.slowTask && n > 1 {
			idx = (idx + 1) % n
		}
	}
	tp.Record("sched", uint64(idx))
	return idx
}

// Run executes root as task "0" and schedules until every task has exited,
// the step budget is exhausted, or nothing can make progress.
// It must be called from inside a synctest bubble.
func (s *Sched) Run(root func()) {
	if !cur.CompareAndSwap(nil, s) {
		panic("simrt: a simulation is already running in this process")
	}
	defer cur.Store(nil)
	s.Start = time.Now()
	s.Policy = int(s.Tape.Choose("cfg", numPolicies, "policy"))
	slow := s.Tape.Choose("cfg", 4, "slowtask")
	s.slowTask = "0." + strconv.Itoa(slow+1)
	g := goid()
	setOwner(g, s)
	defer setOwner(g, nil)
	s.tasks[g] = newTask("S")
	s.mu.Lock()
	s.live++
	s.mu.Unlock()
	go s.runTask("0", func() {
		defer func() {
			s.mu.Lock()
			s.rootDone = true
			s.mu.Unlock()
		}()
		root()
	})
	for {
		synctest.Wait()
		s.mu.Lock()
		if len(s.parked) == 0 {
			if s.live == 0 {
				s.mu.Unlock()
				return
			}
			idle := s.MaxIdle
			if s.rootDone {
				// the workload has returned: tasks that are still blocked are goroutines the code
				// under test leaked, not a hang of the operation; give their timers a moment
				idle = 2 * time.Minute
			}
			s.mu.Unlock()
			select {
			case <-s.wake:
			case <-time.After(idle):
				synctest.Wait()
				s.mu.Lock()
				if len(s.parked) == 0 && s.live > 0 && s.rootDone {
					s.LeakedTasks = s.live
					s.Aborted = true
					s.DeadReport = s.report()
					s.mu.Unlock()
					return
				}
				if len(s.parked) == 0 && s.live > 0 {
					if os.Getenv("VERIF_DUMP") != "" {
						buf := make([]byte, 1<<20)
						n := runtime.Stack(buf, true)
						os.Stderr.Write(buf[:n])
					}
					s.Deadlock = true
					s.Aborted = true
					s.DeadReport = s.report()
					s.mu.Unlock()
					return
				}
				s.mu.Unlock()
			}
			continue
		}
		if s.Steps >= s.MaxSteps {
			s.StepLimit = true
			s.Aborted = true
			s.DeadReport = s.report()
			s.mu.Unlock()
			return
		}
		sort.Slice(s.parked, func(i, j int) bool { return lessOrd(s.parked[i].t.ord, s.parked[j].t.ord) })
		i := 0
		if n := len(s.parked); n > 1 {
			i = s.pick(n)
			s.Contended++
			s.mix(&s.ilHash, s.parked[i].t.id)
		}
		w := s.parked[i]
		s.parked = append(s.parked[:i], s.parked[i+1:]...)
		s.Steps++
		s.lastTask = w.t.id
		s.mix(&s.evHash, w.t.id)
		s.mix(&s.evHash, w.site)
		if s.KeepTrace {
			s.Trace = append(s.Trace, "run "+w.t.id+" @"+w.site)
		}
		hook := s.OnStep
		s.mu.Unlock()
		close(w.ch)
		if hook != nil {
			synctest.Wait()
			hook()
		}
	}
}

// Abort ends the simulation: every task that reaches a yield from now on is
// abandoned. Used for "process death".
func (s *Sched) Abort() {
	s.mu.Lock()
	s.Aborted = true
	s.mu.Unlock()
}

func (s *Sched) report() string {
	var ids []string
	for _, t := range s.tasks {
		if t.id == "S" {
			continue
		}
		ids = append(ids, t.id+"@"+t.site)
	}
	sort.Strings(ids)
	return strings.Join(ids, " ")
}

// Live returns the number of tasks that have not returned.
func (s *Sched) Live() int {
	s.mu.Lock()
	defer s.mu.Unlock()
	return s.live
}

// Elapsed is the simulated time since the start of the run.
func (s *Sched) Elapsed() time.Duration { return time.Since(s.Start) }

// Hash64 is a helper for harnesses.
func Hash64(parts ...string) uint64 {
	h := fnv.New64a()
	for _, p := range parts {
		h.Write([]byte(p))
		h.Write([]byte{0})
	}
	return h.Sum64()
}
