package simrt

import "sync"

// Mutex replaces sync.Mutex in the instrumented copy. A goroutine blocked on
// a real mutex is not "durably blocked" for synctest, so the bubble would
// hang whenever the holder is parked at a yield; and who gets a contended
// lock must be the tape's decision, not the Go runtime's. The zero value is
// an unlocked mutex; outside a simulation it behaves like sync.Mutex.
type Mutex struct {
	st      sync.Mutex
	locked  bool
	waiters []chan struct{}
}

func (m *Mutex) Lock() {
	Yield("lock")
	for {
		m.st.Lock()
		if !m.locked {
			m.locked = true
			m.st.Unlock()
			return
		}
		ch := make(chan struct{})
		m.waiters = append(m.waiters, ch)
		m.st.Unlock()
		<-ch
		Yield("lockwake")
	}
}

func (m *Mutex) TryLock() bool {
	Yield("trylock")
	m.st.Lock()
	defer m.st.Unlock()
	if m.locked {
		return false
	}
	m.locked = true
	return true
}

func (m *Mutex) Unlock() {
	m.st.Lock()
	if !m.locked {
		m.st.Unlock()
		panic("simrt: unlock of unlocked mutex")
	}
	m.locked = false
	ws := m.waiters
	m.waiters = nil
	m.st.Unlock()
	for _, ch := range ws {
		close(ch)
	}
}

// RWMutex replaces sync.RWMutex (readers share).
type RWMutex struct {
	st      sync.Mutex
	writer  bool
	readers int
	waiters []chan struct{}
}

func (m *RWMutex) wait() {
	ch := make(chan struct{})
	m.waiters = append(m.waiters, ch)
	m.st.Unlock()
	<-ch
	Yield("lockwake")
}

func (m *RWMutex) wakeAll() {
	ws := m.waiters
	m.waiters = nil
	m.st.Unlock()
	for _, ch := range ws {
		close(ch)
	}
}

func (m *RWMutex) Lock() {
	Yield("lock")
	for {
		m.st.Lock()
		if !m.writer && m.readers == 0 {
			m.writer = true
			m.st.Unlock()
			return
		}
		m.wait()
	}
}

func (m *RWMutex) Unlock() {
	m.st.Lock()
	m.writer = false
	m.wakeAll()
}

func (m *RWMutex) RLock() {
	Yield("rlock")
	for {
		m.st.Lock()
		if !m.writer {
			m.readers++
			m.st.Unlock()
			return
		}
		m.wait()
	}
}

func (m *RWMutex) RUnlock() {
	m.st.Lock()
	m.readers--
	m.wakeAll()
}

func (m *RWMutex) TryLock() bool {
	m.st.Lock()
	defer m.st.Unlock()
	if m.writer || m.readers > 0 {
		return false
	}
	m.writer = true
	return true
}

// WaitGroupWait is inserted after wg.Wait(): the waiter becomes runnable at
// the same moment as the task that called Done, so it parks again and lets
// the scheduler decide.
func WaitGroupWait() { Yield("wgwait") }
