package simrt

import (
	"sync"
)

// Tape is the single source of every choice made in a run. It has named,
// independent streams. In generation mode a stream is a PRNG seeded from
// (seed, stream name); in replay mode it is an explicit list of values, and
// draws past its end return 0 ("the simplest choice"), which is what makes
// deleting and zeroing draws a meaningful way to shrink a failing run.
// Every value handed out is recorded so a run can be turned into a replay.
type Tape struct {
	mu      sync.Mutex
	Seed    uint64
	streams map[string]*stream
	Params  map[string]int
}

type stream struct {
	state  uint64
	replay []uint64
	isRep  bool
	pos    int
	rec    []uint64
}

// NewTape returns a tape in generation mode.
func NewTape(seed uint64, params map[string]int) *Tape {
	if params == nil {
		params = map[string]int{}
	}
	return &Tape{Seed: seed, streams: map[string]*stream{}, Params: params}
}

// NewReplayTape returns a tape whose listed streams are explicit; streams
// not listed stay in generation mode from seed.
func NewReplayTape(seed uint64, params map[string]int, streams map[string][]uint64) *Tape {
	t := NewTape(seed, params)
	for name, vals := range streams {
		st := t.get(name)
		st.isRep = true
		st.replay = vals
	}
	return t
}

func splitmix(x *uint64) uint64 {
	*x += 0x9e3779b97f4a7c15
	z := *x
	z = (z ^ (z >> 30)) * 0xbf58476d1ce4e5b9
	z = (z ^ (z >> 27)) * 0x94d049bb133111eb
	return z ^ (z >> 31)
}

func (t *Tape) get(name string) *stream {
	st := t.streams[name]
	if st == nil {
		st = &stream{state: Hash64(name) ^ (t.Seed * 0x9e3779b97f4a7c15)}
		// warm up so that neighbouring seeds decorrelate
		splitmix(&st.state)
		t.streams[name] = st
	}
	return st
}

// Param returns a run parameter (0 when absent). Parameters carry the
// positional part of a fault plan ("fault at request k").
func (t *Tape) Param(name string) int {
	return t.Params[name]
}

// Replaying reports whether the stream is an explicit list.
func (t *Tape) Replaying(name string) bool {
	t.mu.Lock()
	defer t.mu.Unlock()
	return t.get(name).isRep
}

// Raw returns 64 PRNG bits without recording them (generation mode only);
// the caller records the derived decision with Record.
func (t *Tape) Raw(name string) uint64 {
	t.mu.Lock()
	defer t.mu.Unlock()
	st := t.get(name)
	return splitmix(&st.state)
}

// Record appends a decision to the stream's record.
func (t *Tape) Record(name string, v uint64) {
	t.mu.Lock()
	defer t.mu.Unlock()
	st := t.get(name)
	st.rec = append(st.rec, v)
}

// Choose returns a value in [0,n). 0 is by convention the simplest choice.
func (t *Tape) Choose(name string, n int, label string) int {
	if n <= 1 {
		return 0
	}
	t.mu.Lock()
	defer t.mu.Unlock()
	st := t.get(name)
	var v uint64
	if st.isRep {
		if st.pos < len(st.replay) {
			v = st.replay[st.pos]
			st.pos++
			if v >= uint64(n) {
				v = uint64(n - 1)
			}
		}
	} else {
		v = splitmix(&st.state) % uint64(n)
	}
	st.rec = append(st.rec, v)
	return int(v)
}

// Chance returns true with probability num/den; false is the simple choice.
func (t *Tape) Chance(name string, num, den int, label string) bool {
	if num <= 0 {
		return false
	}
	return t.Choose(name, den, label) >= den-num
}

// Range returns a value in [lo,hi].
func (t *Tape) Range(name string, lo, hi int, label string) int {
	if hi <= lo {
		return lo
	}
	return lo + t.Choose(name, hi-lo+1, label)
}

// Recorded returns the values handed out so far per stream.
func (t *Tape) Recorded() map[string][]uint64 {
	t.mu.Lock()
	defer t.mu.Unlock()
	out := map[string][]uint64{}
	for n, st := range t.streams {
		out[n] = append([]uint64(nil), st.rec...)
	}
	return out
}
