// Package gen builds image graphs from the tape: manifests are serialised by
// this package's own code (never by regclient), so that the content the
// client under test is fed, and the expectations of the oracles, are
// independent of the code under test.
package gen

import (
	"encoding/base64"
	"encoding/json"
	"fmt"
	"os"
	"path/filepath"
	"sort"
	"strings"

	"github.com/regclient/regclient/internal/verif/regmodel"
	"github.com/regclient/regclient/internal/verif/simrt"
)

const (
	MTOCIManifest         = "application/vnd.oci.image.manifest.v1+json"
	MTOCIIndex            = "application/vnd.oci.image.index.v1+json"
	MTOCIConfig           = "application/vnd.oci.image.config.v1+json"
	MTOCILayerGz          = "application/vnd.oci.image.layer.v1.tar+gzip"
	MTOCILayer            = "application/vnd.oci.image.layer.v1.tar"
	MTOCIEmpty            = "application/vnd.oci.empty.v1+json"
	MTDockerMan           = "application/vnd.docker.distribution.manifest.v2+json"
	MTDockerList          = "application/vnd.docker.distribution.manifest.list.v2+json"
	MTDockerConfig        = "application/vnd.docker.container.image.v1+json"
	MTDockerLayer         = "application/vnd.docker.image.rootfs.diff.tar.gzip"
	MTDockerForeign       = "application/vnd.docker.image.rootfs.foreign.diff.tar.gzip"
	MTDockerSchema1       = "application/vnd.docker.distribution.manifest.v1+json"
	MTDockerSchema1Signed = "application/vnd.docker.distribution.manifest.v1+prettyjws"
	MTOCIArtifact         = "application/vnd.oci.artifact.manifest.v1+json"
)

// Desc is a descriptor as this package serialises it.
type Desc struct {
	MediaType    string            `json:"mediaType"`
	Digest       string            `json:"digest"`
	Size         int               `json:"size"`
	URLs         []string          `json:"urls,omitempty"`
	Annotations  map[string]string `json:"annotations,omitempty"`
	Data         string            `json:"data,omitempty"`
	Platform     *Platform         `json:"platform,omitempty"`
	ArtifactType string            `json:"artifactType,omitempty"`
}

type Platform struct {
	Architecture string `json:"architecture"`
	OS           string `json:"os"`
	Variant      string `json:"variant,omitempty"`
}

// Blob is content referenced by a manifest.
type Blob struct {
	Desc     Desc
	Data     []byte
	External bool // has URLs: not hosted by the source repository
	Hosted   bool // stored in the source repository
}

// Node is a manifest in the graph.
type Node struct {
	Kind      string // image, index, artifact
	MediaType string
	Raw       []byte
	Digest    string
	Children  []*Node // index entries that are manifests
	BlobKids  []*Blob // index entries that are blobs
	Blobs     []*Blob // config, layers
	Subject   string  // digest of the subject (may dangle)
	ArtType   string
	Annot     map[string]string
	Platform  *Platform
	Payload   []byte // signed schema1: the canonical payload the digest is computed over
}

// Graph is a generated image with its surroundings in the source repository.
type Graph struct {
	Root       *Node
	Referrers  []*Node          // artifacts with a subject somewhere in the graph (incl. referrers of referrers)
	DigestTags map[string]*Node // "sha256-<hex>.suffix" -> manifest
	Shape      string
	Alg        string
	Loop       bool // a referrer lists its own subject as a child
}

type G struct {
	InlineChildren    bool // Index: entries carry their child manifest as inline data
	T                 *simrt.Tape
	n                 int
	MaxBlob           int
	pool              []*Blob // blobs available for sharing
	lastCfg           *Blob   // config of the image generated last
	Alg               string
	NoExt             bool // never generate external (URL) layers
	ArtifactInlineConfig bool // Artifact: the (empty JSON) config descriptor carries its content as inline data
	ExtHost           string // host (optionally host:port) of external layer URLs; default ext.test
	ArtifactAnnotMode int  // Artifact: 0 the serial annotation, 1 an empty annotations object, 2 none, 3 another annotation only
}

func (g *G) extHost() string {
	if g.ExtHost != "" {
		return g.ExtHost
	}
	return "ext.test"
}

func New(t *simrt.Tape) *G { return &G{T: t, MaxBlob: 600, Alg: "sha256"} }

func (g *G) c(n int, label string) int { return g.T.Choose("gen", n, label) }

// Bytes returns n tape-derived bytes.
func (g *G) Bytes(n int) []byte { return g.bytes(n) }

func (g *G) bytes(n int) []byte {
	g.n++
	b := make([]byte, n)
	x := uint64(g.n)*0x9e3779b97f4a7c15 ^ uint64(g.T.Choose("gen", 1<<30, "blobseed"))
	for i := range b {
		x ^= x << 13
		x ^= x >> 7
		x ^= x << 17
		b[i] = byte(x)
	}
	return b
}

func (g *G) size() int {
	switch g.c(6, "blobsize") {
	case 0:
		return 1 + g.c(40, "small")
	case 1:
		return 0
	case 2:
		return 1
	default:
		return 1 + g.c(g.MaxBlob, "size")
	}
}

func (g *G) blob(mt string) *Blob {
	// share an existing blob sometimes
	if len(g.pool) > 0 && g.c(4, "share") == 1 {
		p := g.pool[g.c(len(g.pool), "which")]
		cp := *p
		cp.Desc.MediaType = mt
		if !p.External {
			return &cp
		}
	}
	data := g.bytes(g.size())
	b := &Blob{Data: data, Hosted: true, Desc: Desc{MediaType: mt, Digest: regmodel.Digest(g.Alg, data), Size: len(data)}}
	g.pool = append(g.pool, b)
	return b
}

func (g *G) config(mt string, nLayers int) *Blob {
	g.n++
	body := map[string]any{"architecture": "amd64", "os": "linux", "config": map[string]any{"Labels": map[string]string{"n": fmt.Sprint(g.n)}},
		"rootfs": map[string]any{"type": "layers", "diff_ids": make([]string, 0)}}
	data, _ := json.Marshal(body)
	return &Blob{Data: data, Hosted: true, Desc: Desc{MediaType: mt, Digest: regmodel.Digest(g.Alg, data), Size: len(data)}}
}

// marshal with a tape-chosen style so that raw bytes are not what regclient would produce
func (g *G) marshal(fields []kv) []byte {
	style := g.c(3, "jsonstyle")
	if style == 2 {
		// reverse field order
		for i, j := 0, len(fields)-1; i < j; i, j = i+1, j-1 {
			fields[i], fields[j] = fields[j], fields[i]
		}
	}
	var sb strings.Builder
	sep, ind := ",", ""
	if style == 1 {
		sep, ind = ",\n  ", "\n  "
	}
	sb.WriteString("{" + ind)
	for i, f := range fields {
		if i > 0 {
			sb.WriteString(sep)
		}
		v, _ := json.Marshal(f.v)
		k, _ := json.Marshal(f.k)
		sb.Write(k)
		sb.WriteString(":")
		if style == 1 {
			sb.WriteString(" ")
		}
		sb.Write(v)
	}
	if style == 1 {
		sb.WriteString("\n")
	}
	sb.WriteString("}")
	return []byte(sb.String())
}

type kv struct {
	k string
	v any
}

// Image generates a single image manifest.
func (g *G) Image(docker bool) *Node {
	n := &Node{Kind: "image"}
	cmt, lmt := MTOCIConfig, MTOCILayerGz
	n.MediaType = MTOCIManifest
	if docker {
		cmt, lmt = MTDockerConfig, MTDockerLayer
		n.MediaType = MTDockerMan
	}
	nl := g.c(4, "layers")
	cfg := g.config(cmt, nl)
	// now and then two images (platforms of one index) share one config blob
	sharedCfg := false
	if g.lastCfg != nil && g.lastCfg.Desc.MediaType == cmt && g.c(6, "sharecfg") == 5 {
		cfg = g.lastCfg
		sharedCfg = true
	}
	g.lastCfg = cfg
	n.Blobs = append(n.Blobs, cfg)
	var layers []Desc
	for i := 0; i < nl; i++ {
		lk := g.c(8, "layerkind")
		if lk == 6 && g.NoExt {
			lk = 0
		}
		switch lk {
		case 6: // foreign layer with URLs, not hosted
			data := g.bytes(1 + g.c(100, "fsize"))
			mt := lmt
			if docker {
				mt = MTDockerForeign
			}
			b := &Blob{Data: data, External: true, Desc: Desc{MediaType: mt, Digest: regmodel.Digest(g.Alg, data), Size: len(data),
				URLs: []string{"https://" + g.extHost() + "/ext/" + regmodel.Digest(g.Alg, data)}}}
			n.Blobs = append(n.Blobs, b)
			layers = append(layers, b.Desc)
		case 7: // duplicate of the previous layer
			if len(layers) > 0 {
				prev := n.Blobs[len(n.Blobs)-1]
				n.Blobs = append(n.Blobs, prev)
				layers = append(layers, prev.Desc)
				continue
			}
			fallthrough
		default:
			b := g.blob(lmt)
			if !docker && len(b.Data) > 0 && len(b.Data) < 64 && g.c(4, "inline") == 1 {
				cp := *b
				cp.Desc.Data = base64.StdEncoding.EncodeToString(b.Data)
				b = &cp
			}
			n.Blobs = append(n.Blobs, b)
			layers = append(layers, b.Desc)
		}
	}
	if layers == nil {
		layers = []Desc{}
	}
	fields := []kv{{"schemaVersion", 2}, {"mediaType", n.MediaType}, {"config", cfg.Desc}, {"layers", layers}}
	if !docker && g.c(3, "annot") == 1 {
		n.Annot = map[string]string{"org.example.k": fmt.Sprint("v", g.c(100, "av"))}
		fields = append(fields, kv{"annotations", n.Annot})
	}
	if g.c(5, "unknownfield") == 1 {
		fields = append(fields, kv{"x-unknown", map[string]any{"a": 1, "b": []int{1, 2}}})
	}
	if sharedCfg {
		// two images over one config must still be two manifests: harnesses tell images apart by digest
		g.n++
		fields = append(fields, kv{"x-serial", g.n})
	}
	n.Raw = g.marshal(fields)
	n.Digest = regmodel.Digest(g.Alg, n.Raw)
	return n
}

// Artifact generates an OCI artifact manifest (image manifest with
// artifactType / empty config) naming subject.
func (g *G) Artifact(subject *Node, artType string) *Node {
	return g.artifact(subject, artType, nil)
}

// ArtifactCarrying generates an artifact whose single layer is the given content (e.g. the bytes of another
// manifest, as tools that archive or attest manifests store them).
func (g *G) ArtifactCarrying(data []byte, mediaType, artType string) *Node {
	b := &Blob{Data: data, Hosted: true, Desc: Desc{MediaType: mediaType, Digest: regmodel.Digest(g.Alg, data), Size: len(data)}}
	return g.artifact(nil, artType, b)
}

func (g *G) artifact(subject *Node, artType string, layer *Blob) *Node {
	n := &Node{Kind: "artifact", MediaType: MTOCIManifest, ArtType: artType}
	empty := &Blob{Data: []byte("{}"), Hosted: true, Desc: Desc{MediaType: MTOCIEmpty, Digest: regmodel.Digest(g.Alg, []byte("{}")), Size: 2}}
	if g.ArtifactInlineConfig {
		// the config descriptor carries its content inline (as a push with a data limit writes it)
		empty.Desc.Data = base64.StdEncoding.EncodeToString(empty.Data)
	}
	n.Blobs = append(n.Blobs, empty)
	b := layer
	if b == nil {
		b = g.blob("application/vnd.example.data")
		// the usual shape of an artifact without content of its own: the empty JSON blob is both config and layer
		if g.c(4, "cfglayer") == 3 {
			b = empty
		}
	}
	n.Blobs = append(n.Blobs, b)
	g.n++
	n.Annot = map[string]string{"org.example.serial": fmt.Sprint(g.n)}
	fields := []kv{{"schemaVersion", 2}, {"mediaType", n.MediaType}, {"artifactType", artType}, {"config", empty.Desc}, {"layers", []Desc{b.Desc}}, {"annotations", n.Annot}}
	switch g.ArtifactAnnotMode {
	case 1: // an empty annotations object (what a tool that always allocates the map writes)
		n.Annot = map[string]string{}
		fields[len(fields)-1] = kv{"annotations", map[string]string{}}
	case 2:
		n.Annot = nil
		fields = fields[:len(fields)-1]
	case 3: // annotations, but not the serial one
		n.Annot = map[string]string{"org.example.other": fmt.Sprint(g.n)}
		fields[len(fields)-1] = kv{"annotations", n.Annot}
	}
	if subject != nil {
		n.Subject = subject.Digest
		fields = append(fields, kv{"subject", Desc{MediaType: subject.MediaType, Digest: subject.Digest, Size: len(subject.Raw)}})
	}
	n.Raw = g.marshal(fields)
	n.Digest = regmodel.Digest(g.Alg, n.Raw)
	return n
}

// ReferrerIndex generates an OCI index that is itself a referrer: it names subject and lists children, which may
// include the subject itself (the "loop" shape of regclient's own test data: an index whose subject is one of its entries).
func (g *G) ReferrerIndex(subject *Node, children []*Node, artType string) *Node {
	n := &Node{Kind: "index", MediaType: MTOCIIndex, Children: children, ArtType: artType, Subject: subject.Digest}
	var ds []Desc
	for _, c := range children {
		ds = append(ds, Desc{MediaType: c.MediaType, Digest: c.Digest, Size: len(c.Raw)})
	}
	g.n++
	n.Annot = map[string]string{"org.example.serial": fmt.Sprint(g.n)}
	fields := []kv{{"schemaVersion", 2}, {"mediaType", n.MediaType}, {"artifactType", artType}, {"manifests", ds},
		{"subject", Desc{MediaType: subject.MediaType, Digest: subject.Digest, Size: len(subject.Raw)}}, {"annotations", n.Annot}}
	n.Raw = g.marshal(fields)
	n.Digest = regmodel.Digest(g.Alg, n.Raw)
	return n
}

// Schema1 generates an unsigned Docker schema1 manifest (no config object; layers as fsLayers).
func (g *G) Schema1() *Node {
	n := &Node{Kind: "schema1", MediaType: MTDockerSchema1}
	nl := 1 + g.c(3, "s1layers")
	var fs []map[string]string
	var hist []map[string]string
	for i := 0; i < nl; i++ {
		b := g.blob(MTDockerLayer)
		b.Desc.Data = ""
		n.Blobs = append(n.Blobs, b)
		fs = append(fs, map[string]string{"blobSum": b.Desc.Digest})
		g.n++
		hist = append(hist, map[string]string{"v1Compatibility": fmt.Sprintf(`{"id":"%064x","created":"2020-01-01T00:00:00Z"}`, g.n)})
	}
	fields := []kv{{"schemaVersion", 1}, {"name", "proj/app"}, {"tag", "v1"}, {"architecture", "amd64"}, {"fsLayers", fs}, {"history", hist}}
	n.Raw = g.marshal(fields)
	n.Digest = regmodel.Digest(g.Alg, n.Raw)
	return n
}

// Schema1Signed generates a signed Docker schema1 manifest in libtrust's "pretty signature" format.
// Its digest is that of the canonical payload (the body without the signatures block), not of the raw bytes.
func (g *G) Schema1Signed() *Node {
	u := g.Schema1()
	// re-serialise compactly so that the payload ends in "}"
	var v any
	_ = json.Unmarshal(u.Raw, &v)
	payload, _ := json.Marshal(v)
	prefix, tail := payload[:len(payload)-1], payload[len(payload)-1:]
	prot, _ := json.Marshal(map[string]any{"formatLength": len(prefix), "formatTail": base64.RawURLEncoding.EncodeToString(tail), "time": "2020-01-01T00:00:00Z"})
	sig := fmt.Sprintf(`,"signatures":[{"header":{"alg":"ES256"},"signature":"c2lnbmF0dXJl","protected":"%s"}]`, base64.RawURLEncoding.EncodeToString(prot))
	n := &Node{Kind: "schema1-signed", MediaType: MTDockerSchema1Signed, Blobs: u.Blobs}
	n.Raw = append(append(append([]byte{}, prefix...), []byte(sig)...), tail...)
	n.Payload = payload
	n.Digest = regmodel.Digest(g.Alg, payload)
	return n
}

// OCIArtifact generates the (deprecated but supported) OCI artifact manifest: blobs, no config.
func (g *G) OCIArtifact(subject *Node, artType string) *Node {
	n := &Node{Kind: "oci-artifact", MediaType: MTOCIArtifact, ArtType: artType}
	var blobs []Desc
	for i, k := 0, 1+g.c(2, "ablobs"); i < k; i++ {
		b := g.blob("application/vnd.example.data")
		b.Desc.Data = ""
		n.Blobs = append(n.Blobs, b)
		blobs = append(blobs, b.Desc)
	}
	g.n++
	n.Annot = map[string]string{"org.example.serial": fmt.Sprint(g.n)}
	fields := []kv{{"mediaType", n.MediaType}, {"artifactType", artType}, {"blobs", blobs}, {"annotations", n.Annot}}
	if subject != nil {
		n.Subject = subject.Digest
		fields = append(fields, kv{"subject", Desc{MediaType: subject.MediaType, Digest: subject.Digest, Size: len(subject.Raw)}})
	}
	n.Raw = g.marshal(fields)
	n.Digest = regmodel.Digest(g.Alg, n.Raw)
	return n
}

var plats = []Platform{{"amd64", "linux", ""}, {"arm64", "linux", "v8"}, {"arm", "linux", "v7"}, {"amd64", "windows", ""}, {"s390x", "linux", ""}}

// Index generates an index over children.
func (g *G) Index(docker bool, children []*Node, blobKids []*Blob) *Node {
	n := &Node{Kind: "index", MediaType: MTOCIIndex, Children: children, BlobKids: blobKids}
	if docker {
		n.MediaType = MTDockerList
	}
	var ds []Desc
	for i, c := range children {
		d := Desc{MediaType: c.MediaType, Digest: c.Digest, Size: len(c.Raw)}
		if g.InlineChildren {
			d.Data = base64.StdEncoding.EncodeToString(c.Raw)
		}
		if c.Kind == "image" {
			p := plats[i%len(plats)]
			d.Platform = &p
			c.Platform = &p
		}
		if c.ArtType != "" {
			d.ArtifactType = c.ArtType
		}
		ds = append(ds, d)
	}
	for _, b := range blobKids {
		ds = append(ds, b.Desc)
	}
	if ds == nil {
		ds = []Desc{}
	}
	fields := []kv{{"schemaVersion", 2}, {"mediaType", n.MediaType}, {"manifests", ds}}
	n.Raw = g.marshal(fields)
	n.Digest = regmodel.Digest(g.Alg, n.Raw)
	return n
}

// Opts steer Graph.
type Opts struct {
	NoReferrers  bool
	NoDigestTags bool
	NoExternal   bool
	NoBlobKids   bool
	NoLegacy     bool // no schema1 and no OCI artifact manifests
	Loops        bool // referrers that are indexes over their own subject
	ForceLoop    bool // always generate referrers and, where the shape allows it, such a loop
}

// Graph generates an image graph with optional referrers and digest-tags.
func (g *G) Graph(o Opts) *Graph {
	gr := &Graph{DigestTags: map[string]*Node{}, Alg: g.Alg}
	if o.NoExternal {
		g.NoExt = true
	}
	docker := g.c(3, "family") == 2
	shape := g.c(7, "shape")
	if o.NoLegacy && shape >= 5 {
		shape -= 5
	}
	switch shape {
	case 5:
		gr.Shape = "schema1"
		gr.Root = g.Schema1()
	case 6:
		gr.Shape = "index+oci-artifact"
		gr.Root = g.Index(false, []*Node{g.Image(false), g.OCIArtifact(nil, "application/vnd.example.art")}, nil)
	case 0:
		gr.Shape = "image"
		gr.Root = g.Image(docker)
	case 1, 2:
		gr.Shape = "index"
		var kids []*Node
		for i, k := 0, 1+g.c(3, "kids"); i < k; i++ {
			kids = append(kids, g.Image(docker))
		}
		var bk []*Blob
		if !docker && !o.NoBlobKids && g.c(5, "blobkid") == 1 {
			gr.Shape = "index+blobentry"
			bk = append(bk, g.blob(MTOCILayerGz))
		}
		gr.Root = g.Index(docker, kids, bk)
	case 3:
		gr.Shape = "nested-index"
		inner := g.Index(false, []*Node{g.Image(false), g.Image(false)}, nil)
		kids := []*Node{inner}
		if g.c(2, "extra") == 1 {
			kids = append(kids, g.Image(false))
		}
		gr.Root = g.Index(false, kids, nil)
	case 4:
		gr.Shape = "artifact"
		gr.Root = g.Artifact(nil, "application/vnd.example.art")
	}
	if !o.NoReferrers && (o.ForceLoop || g.c(2, "referrers") == 1) {
		targets := []*Node{gr.Root}
		targets = append(targets, gr.Root.Children...)
		types := []string{"application/vnd.example.sbom", "application/vnd.example.sig", "application/vnd.example.att"}
		for i, k := 0, 1+g.c(3, "nref"); i < k; i++ {
			subj := targets[g.c(len(targets), "subj")]
			a := g.Artifact(subj, types[g.c(len(types), "atype")])
			gr.Referrers = append(gr.Referrers, a)
			if g.c(4, "refofref") == 1 {
				gr.Referrers = append(gr.Referrers, g.Artifact(a, types[g.c(len(types), "atype")]))
			}
		}
		// a referrer that is an index over its own subject and one more image: copying it meets its subject
		// again while the subject's copy is still in progress
		if o.Loops && (o.ForceLoop || g.c(4, "loopref") == 1) {
			subj := targets[g.c(len(targets), "subj")]
			if subj.Kind != "schema1" && subj.MediaType != MTOCIArtifact {
				gr.Referrers = append(gr.Referrers, g.ReferrerIndex(subj, []*Node{subj, g.Image(false)}, types[g.c(len(types), "atype")]))
				gr.Loop = true
			}
		}
	}
	// digest-tags carry the full digest in the tag name; with sha512 that exceeds the 128-character tag limit
	if !o.NoDigestTags && g.Alg == "sha256" && g.c(3, "digesttags") == 1 {
		sig := g.Image(false)
		gr.DigestTags[strings.Replace(gr.Root.Digest, ":", "-", 1)+".sig"] = sig
		if g.c(3, "dt2") == 1 && len(gr.Root.Children) > 0 {
			att := g.Image(false)
			gr.DigestTags[strings.Replace(gr.Root.Children[0].Digest, ":", "-", 1)+".att"] = att
		}
	}
	return gr
}

// Walk visits every manifest node reachable from n through index entries.
func Walk(n *Node, f func(*Node)) {
	f(n)
	for _, c := range n.Children {
		Walk(c, f)
	}
}

// AllNodes returns every manifest of the graph (root closure, referrers, digest-tag targets), deduplicated.
func (gr *Graph) AllNodes() []*Node {
	seen := map[string]bool{}
	var out []*Node
	add := func(n *Node) {
		Walk(n, func(x *Node) {
			if !seen[x.Digest] {
				seen[x.Digest] = true
				out = append(out, x)
			}
		})
	}
	add(gr.Root)
	for _, r := range gr.Referrers {
		add(r)
	}
	var ts []string
	for t := range gr.DigestTags {
		ts = append(ts, t)
	}
	sort.Strings(ts)
	for _, t := range ts {
		add(gr.DigestTags[t])
	}
	return out
}

// FallbackIndex builds the referrers fallback-tag index for subject from the given artifacts.
func FallbackIndex(arts []*Node) []byte {
	var ds []Desc
	for _, a := range arts {
		ds = append(ds, Desc{MediaType: a.MediaType, Digest: a.Digest, Size: len(a.Raw), ArtifactType: a.ArtType, Annotations: a.Annot})
	}
	b, _ := json.Marshal(map[string]any{"schemaVersion": 2, "mediaType": MTOCIIndex, "manifests": ds})
	return b
}

// Install stores the graph in a repository of a registry model: every
// manifest, every hosted blob, the tag, the digest-tags, and — when the
// registry has no referrers API — the fallback tags.
func (gr *Graph) Install(reg *regmodel.Reg, repo, tag string) {
	rp := reg.Repo(repo)
	for _, n := range gr.AllNodes() {
		rp.Manifests[n.Digest] = &regmodel.Manifest{MediaType: n.MediaType, Raw: n.Raw}
		for _, b := range append(append([]*Blob{}, n.Blobs...), n.BlobKids...) {
			if b.Hosted && !b.External {
				rp.Blobs[b.Desc.Digest] = b.Data
			}
		}
	}
	if tag != "" {
		rp.Tags[tag] = gr.Root.Digest
	}
	for t, n := range gr.DigestTags {
		rp.Tags[t] = n.Digest
	}
	if !reg.K.Referrers {
		bySubj := map[string][]*Node{}
		for _, r := range gr.Referrers {
			bySubj[r.Subject] = append(bySubj[r.Subject], r)
		}
		for s, arts := range bySubj {
			raw := FallbackIndex(arts)
			d := regmodel.Digest("sha256", raw)
			rp.Manifests[d] = &regmodel.Manifest{MediaType: MTOCIIndex, Raw: raw}
			rp.Tags[regmodel.FallbackTag(s)] = d
		}
	}
}

// InstallPlain stores only the image itself (root closure and tag): what an
// earlier copy without the referrers / digest-tags options would have left.
func (gr *Graph) InstallPlain(reg *regmodel.Reg, repo, tag string) {
	rp := reg.Repo(repo)
	Walk(gr.Root, func(n *Node) {
		rp.Manifests[n.Digest] = &regmodel.Manifest{MediaType: n.MediaType, Raw: n.Raw}
		for _, b := range append(append([]*Blob{}, n.Blobs...), n.BlobKids...) {
			if b.Hosted && !b.External {
				rp.Blobs[b.Desc.Digest] = b.Data
			}
		}
	})
	if tag != "" {
		rp.Tags[tag] = gr.Root.Digest
	}
}

// Describe is a compact human-readable form for evidence samples.
func (gr *Graph) Describe() map[string]any {
	var desc func(n *Node) any
	desc = func(n *Node) any {
		m := map[string]any{"kind": n.Kind, "mt": n.MediaType[strings.LastIndex(n.MediaType, ".")+1:], "digest": n.Digest[:19]}
		var bl []string
		for _, b := range n.Blobs {
			s := fmt.Sprintf("%s/%d", b.Desc.Digest[7:15], len(b.Data))
			if b.External {
				s += "/ext"
			}
			if b.Desc.Data != "" {
				s += "/inline"
			}
			bl = append(bl, s)
		}
		if bl != nil {
			m["blobs"] = bl
		}
		var ks []any
		for _, c := range n.Children {
			ks = append(ks, desc(c))
		}
		if ks != nil {
			m["children"] = ks
		}
		if len(n.BlobKids) > 0 {
			m["blob_entries"] = len(n.BlobKids)
		}
		if n.Subject != "" {
			m["subject"] = n.Subject[:19]
		}
		return m
	}
	out := map[string]any{"shape": gr.Shape, "root": desc(gr.Root)}
	if len(gr.Referrers) > 0 {
		var rs []any
		for _, r := range gr.Referrers {
			rs = append(rs, desc(r))
		}
		out["referrers"] = rs
	}
	if len(gr.DigestTags) > 0 {
		var ts []string
		for t := range gr.DigestTags {
			ts = append(ts, t[:16]+"…"+t[strings.LastIndex(t, "."):])
		}
		sort.Strings(ts)
		out["digest_tags"] = ts
	}
	return out
}

// ---- OCI layout writer (own code: the layouts the client under test reads
// as sources or finds as pre-existing targets are not written by it)

type layoutEntry struct {
	MediaType   string            `json:"mediaType"`
	Digest      string            `json:"digest"`
	Size        int               `json:"size"`
	Annotations map[string]string `json:"annotations,omitempty"`
}

// LayoutFile writes content under blobs/<alg>/<hex>.
func LayoutFile(dir, dig string, data []byte) error {
	i := strings.IndexByte(dig, ':')
	p := filepath.Join(dir, "blobs", dig[:i])
	if err := os.MkdirAll(p, 0o755); err != nil {
		return err
	}
	return os.WriteFile(filepath.Join(p, dig[i+1:]), data, 0o644)
}

// LayoutInit creates the marker and an index with the given entries (tag -> node), keeping existing entries.
func LayoutSetTags(dir string, tags map[string]*Node) error {
	if err := os.MkdirAll(dir, 0o755); err != nil {
		return err
	}
	if err := os.WriteFile(filepath.Join(dir, "oci-layout"), []byte(`{"imageLayoutVersion":"1.0.0"}`), 0o644); err != nil {
		return err
	}
	var ix struct {
		SchemaVersion int           `json:"schemaVersion"`
		MediaType     string        `json:"mediaType,omitempty"`
		Manifests     []layoutEntry `json:"manifests"`
	}
	if b, err := os.ReadFile(filepath.Join(dir, "index.json")); err == nil {
		_ = json.Unmarshal(b, &ix)
	}
	ix.SchemaVersion = 2
	ix.MediaType = MTOCIIndex
	var names []string
	for t := range tags {
		names = append(names, t)
	}
	sort.Strings(names)
	for _, t := range names {
		n := tags[t]
		en := layoutEntry{MediaType: n.MediaType, Digest: n.Digest, Size: len(n.Raw), Annotations: map[string]string{"org.opencontainers.image.ref.name": t}}
		replaced := false
		for i := range ix.Manifests {
			if ix.Manifests[i].Annotations["org.opencontainers.image.ref.name"] == t {
				ix.Manifests[i] = en
				replaced = true
			}
		}
		if !replaced {
			ix.Manifests = append(ix.Manifests, en)
		}
	}
	if ix.Manifests == nil {
		ix.Manifests = []layoutEntry{}
	}
	b, _ := json.Marshal(ix)
	return os.WriteFile(filepath.Join(dir, "index.json"), b, 0o644)
}

// InstallLayout stores the graph in an OCI layout directory; plain: only the image itself.
func (gr *Graph) InstallLayout(dir, tag string, plain bool) error {
	nodes := gr.AllNodes()
	if plain {
		nodes = nil
		Walk(gr.Root, func(n *Node) { nodes = append(nodes, n) })
	}
	for _, n := range nodes {
		if err := LayoutFile(dir, n.Digest, n.Raw); err != nil {
			return err
		}
		for _, b := range append(append([]*Blob{}, n.Blobs...), n.BlobKids...) {
			if b.Hosted && !b.External {
				if err := LayoutFile(dir, b.Desc.Digest, b.Data); err != nil {
					return err
				}
			}
		}
	}
	tags := map[string]*Node{}
	if tag != "" {
		tags[tag] = gr.Root
	}
	if !plain {
		for t, n := range gr.DigestTags {
			tags[t] = n
		}
		bySubj := map[string][]*Node{}
		for _, r := range gr.Referrers {
			bySubj[r.Subject] = append(bySubj[r.Subject], r)
		}
		for s, arts := range bySubj {
			raw := FallbackIndex(arts)
			n := &Node{Kind: "index", MediaType: MTOCIIndex, Raw: raw, Digest: regmodel.Digest("sha256", raw)}
			if err := LayoutFile(dir, n.Digest, n.Raw); err != nil {
				return err
			}
			tags[regmodel.FallbackTag(s)] = n
		}
	}
	return LayoutSetTags(dir, tags)
}
