package gen

import (
	"archive/tar"
	"bytes"
	"compress/gzip"
	"encoding/base64"
	"encoding/json"
	"fmt"
	"time"

	"github.com/klauspost/compress/zstd"

	"github.com/regclient/regclient/internal/verif/regmodel"
)

// RealLayer is a layer with real tar content.
type RealLayer struct {
	Tar   []byte // uncompressed tar
	Comp  string // none, gzip, zstd
	Blob  *Blob
	Files []string
}

func compress(b []byte, comp string) []byte {
	switch comp {
	case "gzip":
		var zb bytes.Buffer
		zw, _ := gzip.NewWriterLevel(&zb, gzip.BestSpeed)
		_, _ = zw.Write(b)
		_ = zw.Close()
		return zb.Bytes()
	case "zstd":
		var zb bytes.Buffer
		zw, _ := zstd.NewWriter(&zb)
		_, _ = zw.Write(b)
		_ = zw.Close()
		return zb.Bytes()
	}
	return b
}

// RealSpec describes a generated image with real tar layers.
type RealSpec struct {
	Docker   bool
	Comp     string      // none, gzip, zstd
	Base     *RealResult // start from the layers and history of this image (for rebase cases)
	Foreign  bool        // one more layer is a foreign layer (URLs) whose content the repository also stores
	Annot    map[string]string
	MinOwn   int // minimum number of own layers
	Arch     string
	BuildArg bool // history lines carry a build argument
	Inline   bool // the config descriptor and the layer descriptors carry their content as inline data
	FlatTimes bool // every time in the config (created, history) is RealBaseTime
}

// RealBaseTime is the time generated images start from.
var RealBaseTime = time.Date(2021, 3, 4, 5, 6, 7, 0, time.UTC)

// RealResult is a generated real image with what the oracles need to know about it.
type RealResult struct {
	Node        *Node
	Layers      []*RealLayer
	History     []map[string]any
	DiffIDs     []string
	Foreign     *Blob
	Contentless bool // some layer has no file content
}

// RealImage generates an image whose layers are real tar archives and whose
// config carries the matching diff_ids and history.
func (g *G) RealImage(docker bool, comp string) (*Node, []*RealLayer) {
	r := g.RealImageSpec(RealSpec{Docker: docker, Comp: comp, MinOwn: 1})
	return r.Node, r.Layers
}

func layerMT(docker bool, comp string, foreign bool) string {
	if foreign {
		if docker {
			return "application/vnd.docker.image.rootfs.foreign.diff.tar.gzip"
		}
		return map[string]string{"none": "application/vnd.oci.image.layer.nondistributable.v1.tar", "gzip": "application/vnd.oci.image.layer.nondistributable.v1.tar+gzip", "zstd": "application/vnd.oci.image.layer.nondistributable.v1.tar+zstd"}[comp]
	}
	if docker {
		return map[string]string{"none": "application/vnd.docker.image.rootfs.diff.tar", "gzip": MTDockerLayer, "zstd": "application/vnd.docker.image.rootfs.diff.tar.zstd"}[comp]
	}
	return map[string]string{"none": MTOCILayer, "gzip": MTOCILayerGz, "zstd": "application/vnd.oci.image.layer.v1.tar+zstd"}[comp]
}

func (g *G) RealImageSpec(sp RealSpec) *RealResult {
	docker, comp := sp.Docker, sp.Comp
	n := &Node{Kind: "image", MediaType: MTOCIManifest}
	cmt := MTOCIConfig
	if docker {
		n.MediaType, cmt = MTDockerMan, MTDockerConfig
	}
	res := &RealResult{Node: n}
	nl := sp.MinOwn + g.c(3, "rlayers")
	var layers []*RealLayer
	var diffIDs []string
	var hist []map[string]any
	base := RealBaseTime
	flat := func(t time.Time) time.Time {
		if sp.FlatTimes {
			return RealBaseTime
		}
		return t
	}
	if sp.Base != nil {
		layers = append(layers, sp.Base.Layers...)
		diffIDs = append(diffIDs, sp.Base.DiffIDs...)
		hist = append(hist, sp.Base.History...)
		base = base.Add(48 * time.Hour)
	} else {
		hist = append(hist, map[string]any{"created": base.Format(time.RFC3339), "created_by": "ENV A=B", "empty_layer": true})
	}
	nBase := len(layers)
	if sp.Foreign {
		nl++
	}
	for i := 0; i < nl; i++ {
		var tb bytes.Buffer
		tw := tar.NewWriter(&tb)
		foreign := sp.Foreign && i == nl-1
		lcomp := comp
		if foreign && docker {
			lcomp = "gzip"
		}
		rl := &RealLayer{Comp: lcomp}
		// now and then a layer without any file content (what WORKDIR, mkdir, ln -s, touch or rm leave):
		// a directory, a symlink, an empty file, a whiteout
		contentless := !foreign && i > 0 && g.c(5, "contentless") == 4
		if contentless {
			g.n++
			mt := base.Add(time.Duration(g.c(1000, "mtime")) * time.Hour)
			_ = tw.WriteHeader(&tar.Header{Name: fmt.Sprintf("work%d/", g.n), Typeflag: tar.TypeDir, Mode: 0o755, ModTime: mt})
			_ = tw.WriteHeader(&tar.Header{Name: fmt.Sprintf("work%d/link", g.n), Typeflag: tar.TypeSymlink, Linkname: "../etc/common.conf", Mode: 0o777, ModTime: mt})
			_ = tw.WriteHeader(&tar.Header{Name: fmt.Sprintf("work%d/empty", g.n), Typeflag: tar.TypeReg, Size: 0, Mode: 0o644, ModTime: mt})
			_ = tw.WriteHeader(&tar.Header{Name: fmt.Sprintf("dir%d/.wh.file1.txt", nBase), Typeflag: tar.TypeReg, Size: 0, Mode: 0o644, ModTime: mt})
			res.Contentless = true
		}
		for k, nf := 0, 1+g.c(3, "files"); k < nf && !contentless; k++ {
			g.n++
			name := fmt.Sprintf("dir%d/file%d.txt", nBase+i, k)
			if k == 0 {
				name = "etc/common.conf"
			}
			data := []byte(fmt.Sprintf("content %d of layer %d\n", g.n, nBase+i))
			_ = tw.WriteHeader(&tar.Header{Name: name, Typeflag: tar.TypeReg, Size: int64(len(data)), Mode: 0o644, ModTime: base.Add(time.Duration(g.c(1000, "mtime")) * time.Hour), Uid: 0, Gid: 0})
			_, _ = tw.Write(data)
			rl.Files = append(rl.Files, name)
		}
		_ = tw.Close()
		rl.Tar = tb.Bytes()
		cb := compress(rl.Tar, lcomp)
		rl.Blob = &Blob{Data: cb, Hosted: true, Desc: Desc{MediaType: layerMT(docker, lcomp, foreign), Digest: regmodel.Digest(g.Alg, cb), Size: len(cb)}}
		if foreign {
			rl.Blob.External = true
			rl.Blob.Desc.URLs = []string{"https://ext.test/layers/" + rl.Blob.Desc.Digest}
			res.Foreign = rl.Blob
		}
		layers = append(layers, rl)
		diffIDs = append(diffIDs, regmodel.Digest("sha256", rl.Tar))
		by := fmt.Sprintf("COPY layer%d /", nBase+i)
		if sp.BuildArg {
			by = fmt.Sprintf("|1 SECRET=hunter%d /bin/sh -c build layer%d", i, nBase+i)
		}
		hist = append(hist, map[string]any{"created": flat(base.Add(time.Duration(i+1) * time.Hour)).Format(time.RFC3339), "created_by": by})
		// history entries without a layer (ARG, LABEL, VOLUME ...), none to three in a row after any layer
		if g.c(2, "emptyhist") == 1 {
			for k, ne := 0, 1+g.c(3, "nempty"); k < ne; k++ {
				hist = append(hist, map[string]any{"created": flat(base.Add(time.Duration(i+1)*time.Hour + time.Duration(k+1)*time.Minute)).Format(time.RFC3339), "created_by": fmt.Sprintf("LABEL step%d=%d", nBase+i, k), "empty_layer": true})
			}
		}
	}
	g.n++
	arch := sp.Arch
	if arch == "" {
		arch = "amd64"
	}
	cfg := map[string]any{"architecture": arch, "os": "linux", "created": flat(base.Add(24 * time.Hour)).Format(time.RFC3339),
		"config": map[string]any{"Env": []string{"PATH=/bin", "KEEP=1"}, "Labels": map[string]string{"org.example.n": fmt.Sprint(g.n), "version": "1.0", "org.opencontainers.image.created": base.Add(12 * time.Hour).Format(time.RFC3339)},
			"Cmd": []string{"/bin/app"}, "ExposedPorts": map[string]any{"8080/tcp": map[string]any{}}, "Volumes": map[string]any{"/data": map[string]any{}}},
		"rootfs":  map[string]any{"type": "layers", "diff_ids": diffIDs},
		"history": hist}
	cb, _ := json.Marshal(cfg)
	cblob := &Blob{Data: cb, Hosted: true, Desc: Desc{MediaType: cmt, Digest: regmodel.Digest(g.Alg, cb), Size: len(cb)}}
	if sp.Inline {
		cblob.Desc.Data = base64.StdEncoding.EncodeToString(cb)
	}
	n.Blobs = append(n.Blobs, cblob)
	var lds []Desc
	for _, l := range layers {
		n.Blobs = append(n.Blobs, l.Blob)
		d := l.Blob.Desc
		if sp.Inline && !l.Blob.External {
			d.Data = base64.StdEncoding.EncodeToString(l.Blob.Data)
		}
		lds = append(lds, d)
	}
	fields := []kv{{"schemaVersion", 2}, {"mediaType", n.MediaType}, {"config", cblob.Desc}, {"layers", lds}}
	annot := map[string]string{}
	if !docker && g.c(2, "rannot") == 1 {
		annot["org.example.keep"] = "yes"
	}
	if !docker {
		for k, v := range sp.Annot {
			annot[k] = v
		}
	}
	if len(annot) > 0 {
		n.Annot = annot
		fields = append(fields, kv{"annotations", n.Annot})
	}
	n.Raw = g.marshal(fields)
	n.Digest = regmodel.Digest(g.Alg, n.Raw)
	res.Layers, res.History, res.DiffIDs = layers, hist, diffIDs
	return res
}

// IndexWithAttestation generates what a buildkit build with provenance leaves: an OCI index over the image and
// an attestation manifest whose index entry names the image through the docker reference annotations.
func (g *G) IndexWithAttestation(img *Node) *Node {
	g.n++
	stmt := []byte(fmt.Sprintf(`{"_type":"https://in-toto.io/Statement/v0.1","predicateType":"https://slsa.dev/provenance/v0.2","subject":[{"name":"img","digest":{"sha256":"%s"}}],"n":%d}`, img.Digest[7:], g.n))
	lb := &Blob{Data: stmt, Hosted: true, Desc: Desc{MediaType: "application/vnd.in-toto+json", Digest: regmodel.Digest(g.Alg, stmt), Size: len(stmt), Annotations: map[string]string{"in-toto.io/predicate-type": "https://slsa.dev/provenance/v0.2"}}}
	cb, _ := json.Marshal(map[string]any{"architecture": "unknown", "os": "unknown", "config": map[string]any{}, "rootfs": map[string]any{"type": "layers", "diff_ids": []string{regmodel.Digest("sha256", stmt)}}})
	cblob := &Blob{Data: cb, Hosted: true, Desc: Desc{MediaType: MTOCIConfig, Digest: regmodel.Digest(g.Alg, cb), Size: len(cb)}}
	att := &Node{Kind: "image", MediaType: MTOCIManifest, Blobs: []*Blob{cblob, lb}}
	att.Raw = g.marshal([]kv{{"schemaVersion", 2}, {"mediaType", att.MediaType}, {"config", cblob.Desc}, {"layers", []Desc{lb.Desc}}})
	att.Digest = regmodel.Digest(g.Alg, att.Raw)
	n := &Node{Kind: "index", MediaType: MTOCIIndex, Children: []*Node{img, att}}
	p := plats[0]
	img.Platform = &p
	imgData, attData := "", ""
	if g.InlineChildren {
		imgData, attData = base64.StdEncoding.EncodeToString(img.Raw), base64.StdEncoding.EncodeToString(att.Raw)
	}
	ds := []Desc{
		{MediaType: img.MediaType, Digest: img.Digest, Size: len(img.Raw), Platform: &p, Data: imgData},
		{MediaType: att.MediaType, Digest: att.Digest, Size: len(att.Raw), Platform: &Platform{"unknown", "unknown", ""}, Data: attData,
			Annotations: map[string]string{"vnd.docker.reference.type": "attestation-manifest", "vnd.docker.reference.digest": img.Digest}},
	}
	n.Raw = g.marshal([]kv{{"schemaVersion", 2}, {"mediaType", n.MediaType}, {"manifests", ds}})
	n.Digest = regmodel.Digest(g.Alg, n.Raw)
	return n
}
