// Package core is the harness framework: property registry, one simulated
// execution (Exec), the worker loop over seeds and positional parameters,
// shrinking, replay, and the JSON the runner aggregates.
package core

import (
	"encoding/json"
	"fmt"
	"os"
	"path/filepath"
	"runtime/debug"
	"sort"
	"strings"
	"testing"
	"testing/synctest"
	"time"

	"github.com/regclient/regclient/internal/verif/simrt"
)

// Violation is one failed oracle.
type Violation struct {
	Class  string `json:"class"`       // which clause of the property
	FP     string `json:"fingerprint"` // names the specific failing thing (call site / input shape), used for known findings
	Detail string `json:"detail"`
}

// Result is what one simulated execution produced.
type Result struct {
	Violations []Violation         `json:"violations,omitempty"`
	Probes     map[string]int      `json:"probes,omitempty"`
	Faults     map[string]int      `json:"faults,omitempty"`
	Info       map[string]int      `json:"info,omitempty"`
	Steps      int                 `json:"steps"`
	Contended  int                 `json:"contended"`
	SimNS      int64               `json:"sim_ns"`
	EventHash  string              `json:"event_hash"`
	ILHash     uint64              `json:"il_hash"`
	CaseKey    string              `json:"case_key"`
	Nontrivial bool                `json:"nontrivial"`
	Sample     any                 `json:"sample,omitempty"`
	Deadlock   bool                `json:"deadlock,omitempty"`
	StepLimit  bool                `json:"step_limit,omitempty"`
	Stuck      string              `json:"stuck,omitempty"`
	Panic      string              `json:"panic,omitempty"`
	Infra      string              `json:"infra,omitempty"` // harness/model trouble: exit 2, never a verdict
	Trace      []string            `json:"trace,omitempty"`
	Streams    map[string][]uint64 `json:"-"`
	Leaked     int                 `json:"leaked,omitempty"`
	Hung       bool                `json:"hung,omitempty"`
}

// Env is handed to a property's Run function (executing as task "0").
type Env struct {
	Tape  *simrt.Tape
	Sched *simrt.Sched
	Tier  string
	T     *testing.T
	res   *Result
	tmp   []string
}

func (e *Env) Violation(class, fp, format string, a ...any) {
	e.res.Violations = append(e.res.Violations, Violation{Class: class, FP: fp, Detail: fmt.Sprintf(format, a...)})
	simrt.Event("VIOLATION %s %s", class, fp)
}
func (e *Env) Probe(name string)         { e.res.Probes[name]++ }
func (e *Env) ProbeN(name string, n int) { e.res.Probes[name] += n }
func (e *Env) Fault(kind string)         { e.res.Faults[kind]++ }
func (e *Env) Info(name string, v int)   { e.res.Info[name] = v }
func (e *Env) Infra(format string, a ...any) {
	if e.res.Infra == "" {
		e.res.Infra = fmt.Sprintf(format, a...)
	}
}
func (e *Env) Param(name string) int { return e.Tape.Param(name) }
func (e *Env) Choose(stream string, n int, label string) int {
	return e.Tape.Choose(stream, n, label)
}
func (e *Env) Chance(stream string, num, den int, label string) bool {
	return e.Tape.Chance(stream, num, den, label)
}
func (e *Env) Range(stream string, lo, hi int, label string) int {
	return e.Tape.Range(stream, lo, hi, label)
}
func (e *Env) SetCase(key string, nontrivial bool, sample any) {
	e.res.CaseKey = fmt.Sprintf("%016x", simrt.Hash64(key))
	e.res.Nontrivial = nontrivial
	e.res.Sample = sample
}
func (e *Env) Failed() bool { return len(e.res.Violations) > 0 }

// TempDir returns a fresh directory that is removed after the execution.
func (e *Env) TempDir() string {
	base := os.Getenv("VERIF_FS")
	if base == "" {
		base = os.TempDir()
	}
	// fixed-width names: some code under test embeds the path in what it writes (export
	// names), and a path whose length varies between runs would change logged sizes
	tmpCounter++
	d := filepath.Join(base, fmt.Sprintf("r%07d-%07d", os.Getpid()%10000000, tmpCounter))
	if err := os.Mkdir(d, 0o755); err != nil {
		panic(err)
	}
	e.tmp = append(e.tmp, d)
	if e.Sched != nil {
		e.Sched.Scrub(d, fmt.Sprintf("$D%d", len(e.tmp)))
	}
	return d
}

// Params for the positional part of a fault plan.
type Params map[string]int

func (p Params) String() string {
	var ks []string
	for k := range p {
		ks = append(ks, k)
	}
	sort.Strings(ks)
	var sb strings.Builder
	for _, k := range ks {
		fmt.Fprintf(&sb, "%s=%d,", k, p[k])
	}
	return sb.String()
}

// Prop is one property harness.
type Prop struct {
	ID  string
	Run func(e *Env)
	// Plan, when set, is called with the result of the base execution
	// (no params) of a seed and returns further parameter sets to execute
	// with the same seed: the positional enumeration (crash index k, fault
	// kind j at request k, …). budget is the maximum number wanted in this
	// tier (<=0: everything).
	Plan func(base *Result, tier string, budget int, rng func(n int) int) []Params
	// MaxSteps / MaxIdle override the scheduler defaults.
	MaxSteps int
	MaxIdle  time.Duration
	// Liveness: deadlock / step limit are violations (class "liveness")
	// rather than infrastructure errors.
	Liveness bool
	// NoShrinkStreams lists streams the shrinker must leave alone.
	NoShrinkStreams []string
}

var tmpCounter int

var registry = map[string]*Prop{}

func Register(p *Prop)       { registry[p.ID] = p }
func Lookup(id string) *Prop { return registry[id] }

// Exec runs one simulated execution of p on the tape inside a fresh bubble.
func Exec(t *testing.T, p *Prop, tape *simrt.Tape, tier string, keepTrace bool) *Result {
	res := &Result{Probes: map[string]int{}, Faults: map[string]int{}, Info: map[string]int{}}
	env := &Env{Tape: tape, Tier: tier, T: t, res: res}
	func() {
		defer func() {
			if r := recover(); r != nil {
				msg := fmt.Sprint(r)
				// synctest panics when the bubble's root returns while
				// goroutines of the code under test are still blocked
				// (leaked children, abandoned tasks). That is expected.
				if strings.Contains(msg, "deadlock") && strings.Contains(msg, "blocked") {
					res.Leaked++
					return
				}
				res.Panic = msg + "\n" + string(debug.Stack())
			}
		}()
		synctest.Test(t, func(t *testing.T) {
			s := simrt.New(tape)
			if p.MaxSteps > 0 {
				s.MaxSteps = p.MaxSteps
			}
			if p.MaxIdle > 0 {
				s.MaxIdle = p.MaxIdle
			}
			s.KeepTrace = keepTrace
			env.Sched = s
			s.Run(func() {
				defer func() {
					if r := recover(); r != nil {
						res.Panic = fmt.Sprint(r) + "\n" + string(debug.Stack())
					}
				}()
				p.Run(env)
			})
			res.Steps = s.Steps
			res.Contended = s.Contended
			res.SimNS = int64(s.Elapsed())
			res.EventHash = s.EventHash()
			res.ILHash = s.InterleaveHash()
			if s.TaskPanic != "" && res.Panic == "" {
				res.Panic = s.TaskPanic
			}
			res.Deadlock = s.Deadlock
			res.StepLimit = s.StepLimit
			res.Stuck = s.DeadReport
			if s.LeakedTasks > 0 {
				res.Probes["leaked-tasks-after-return"] += s.LeakedTasks
			}
			if keepTrace {
				res.Trace = s.Trace
			}
		})
	}()
	for _, d := range env.tmp {
		os.RemoveAll(d)
	}
	res.Streams = tape.Recorded()
	if res.Deadlock || res.StepLimit {
		kind := "deadlock"
		if res.StepLimit {
			kind = "step-limit"
		}
		if p.Liveness {
			res.Violations = append(res.Violations, Violation{Class: "liveness", FP: kind, Detail: "tasks: " + res.Stuck})
		} else {
			// termination is decided by the liveness properties (C12, C17); elsewhere a
			// run that hangs is counted and reported (the runner refuses to answer when
			// hung runs are more than a small fraction: that would point at the harness)
			res.Probes["run-hung:"+kind]++
			res.Hung = true
		}
	}
	if res.Panic != "" {
		// a panic in the code under test or the harness is never silently dropped
		first := strings.SplitN(res.Panic, "\n", 2)[0]
		res.Violations = append(res.Violations, Violation{Class: "panic", FP: "panic", Detail: first})
	}
	return res
}

// Replay is the on-disk replay file.
type Replay struct {
	Property string              `json:"property"`
	Seed     uint64              `json:"seed"`
	Tier     string              `json:"tier"`
	Params   Params              `json:"params,omitempty"`
	Streams  map[string][]uint64 `json:"streams"`
	Expect   struct {
		Class     string `json:"class"`
		FP        string `json:"fingerprint"`
		EventHash string `json:"event_hash"`
		Detail    string `json:"detail"`
	} `json:"expect"`
	Shrink struct {
		Executions int `json:"executions"`
		DrawsFrom  int `json:"draws_before"`
		DrawsTo    int `json:"draws_after"`
	} `json:"shrink"`
	Trace []string `json:"human_trace,omitempty"`
}

func writeJSON(path string, v any) error {
	b, err := json.MarshalIndent(v, "", " ")
	if err != nil {
		return err
	}
	return os.WriteFile(path, b, 0o644)
}

func firstViolation(r *Result, class, fp string) *Violation {
	for i := range r.Violations {
		v := &r.Violations[i]
		if class == "" || (v.Class == class && v.FP == fp) {
			return v
		}
	}
	return nil
}
