package core

import (
	"encoding/json"
	"fmt"
	"os"
	"path/filepath"
	"regexp"
	"sort"
	"strconv"
	"strings"
	"testing"
	"time"

	"github.com/regclient/regclient/internal/verif/simrt"
)

// Found is a violation as reported by a worker.
type Found struct {
	Seed   uint64 `json:"seed"`
	Params Params `json:"params,omitempty"`
	Class  string `json:"class"`
	FP     string `json:"fingerprint"`
	Detail string `json:"detail"`
	Replay string `json:"replay"`
	Count  int    `json:"count"`
}

// Summary is what one worker process writes for the runner.
type Summary struct {
	Property    string         `json:"property"`
	Tier        string         `json:"tier"`
	Shard       string         `json:"shard"`
	Seeds       int            `json:"seeds"`
	FirstSeed   uint64         `json:"first_seed"`
	LastSeed    uint64         `json:"last_seed"`
	Execs       int            `json:"execs"`
	PosExecs    int            `json:"positional_execs"`
	Steps       int64          `json:"steps"`
	Contended   int64          `json:"contended"`
	SimNS       float64        `json:"sim_ns"` // (a float: hundreds of thousands of runs of a thousand simulated hours overflow an int64 of nanoseconds)
	Probes      map[string]int `json:"probes"`
	Faults      map[string]int `json:"faults"`
	CaseKeys    []string       `json:"case_keys"`
	ILHashes    []string       `json:"il_hashes"`
	KeysCapped  bool           `json:"keys_capped"`
	Samples     []any          `json:"samples"`
	Found       []Found        `json:"found"`
	Infra       []string       `json:"infra"`
	DetReruns   int            `json:"determinism_reruns"`
	DetMismatch int            `json:"determinism_mismatches"`
	Leaked      int            `json:"runs_with_leaked_goroutines"`
	Hung        int            `json:"hung_runs"`
	HungSeeds   []string       `json:"hung_seeds"`
	WallS       float64        `json:"wall_s"`
	Stopped     string         `json:"stopped,omitempty"`
	PosComplete int            `json:"seeds_with_complete_position_enumeration"`
}

func envInt(name string, def int) int {
	if v := os.Getenv(name); v != "" {
		n, err := strconv.Atoi(v)
		if err == nil {
			return n
		}
	}
	return def
}

var slugRe = regexp.MustCompile(`[^A-Za-z0-9]+`)

func slug(s string) string {
	s = slugRe.ReplaceAllString(s, "-")
	if len(s) > 60 {
		s = s[:60]
	}
	return strings.Trim(s, "-")
}

// SeedFor derives the run seed from the check's base seed and the run index.
func SeedFor(base uint64, i int) uint64 { return base*1000003 + uint64(i) }

// Main is the body of the single test function of every harness binary.
func Main(t *testing.T) {
	id := os.Getenv("VERIF_PROP")
	if id == "" {
		t.Skip("VERIF_PROP not set")
	}
	p := Lookup(id)
	if p == nil {
		fmt.Fprintf(os.Stderr, "unknown property %s\n", id)
		os.Exit(2)
	}
	tier := os.Getenv("VERIF_TIER")
	if tier == "" {
		tier = "quick"
	}
	if rp := os.Getenv("VERIF_REPLAY"); rp != "" {
		os.Exit(replayMain(t, p, rp))
	}
	if one := os.Getenv("VERIF_ONE"); one != "" {
		// debugging aid: one run seed (as printed in reports) with the full trace
		seed, _ := strconv.ParseUint(one, 10, 64)
		params := Params{}
		for _, kv := range strings.Split(os.Getenv("VERIF_PARAMS"), ",") {
			if i := strings.IndexByte(kv, '='); i > 0 {
				n, _ := strconv.Atoi(kv[i+1:])
				params[kv[:i]] = n
			}
		}
		for _, ps := range strings.Split(os.Getenv("VERIF_PRE"), ",") {
			if ps == "" {
				continue
			}
			pseed, _ := strconv.ParseUint(ps, 10, 64)
			pr := Exec(t, p, simrt.NewTape(pseed, nil), tier, false)
			if p.Plan != nil {
				for _, pp := range p.Plan(pr, tier, 0, func(n int) int { return 0 }) {
					Exec(t, p, simrt.NewTape(pseed, pp), tier, false)
				}
			}
		}
		r := Exec(t, p, simrt.NewTape(seed, params), tier, true)
		if os.Getenv("VERIF_TWICE") != "" {
			r2 := Exec(t, p, simrt.NewTape(seed, params), tier, true)
			for i := 0; i < len(r.Trace) && i < len(r2.Trace); i++ {
				if r.Trace[i] != r2.Trace[i] {
					fmt.Printf("FIRST DIFFERENCE at event %d:\n  1: %s\n  2: %s\n", i, r.Trace[i], r2.Trace[i])
					break
				}
			}
			fmt.Printf("hashes %s %s lens %d %d\n", r.EventHash, r2.EventHash, len(r.Trace), len(r2.Trace))
			os.Exit(0)
		}
		for _, l := range r.Trace {
			fmt.Println(l)
		}
		r.Trace = nil
		b, _ := json.MarshalIndent(r, "", " ")
		fmt.Println(string(b))
		os.Exit(0)
	}
	base := uint64(envInt("VERIF_SEED", 1))
	runs := envInt("VERIF_RUNS", 100)
	posBudget := envInt("VERIF_POS_BUDGET", 0)
	shard, nshard := 0, 1
	if s := os.Getenv("VERIF_SHARD"); s != "" {
		fmt.Sscanf(s, "%d/%d", &shard, &nshard)
	}
	budget := time.Duration(envInt("VERIF_BUDGET_S", 3600)) * time.Second
	out := os.Getenv("VERIF_OUT")
	repDir := os.Getenv("VERIF_REPLAY_DIR")
	if repDir == "" {
		repDir = os.TempDir()
	}
	sum := &Summary{Property: id, Tier: tier, Shard: fmt.Sprintf("%d/%d", shard, nshard), Probes: map[string]int{}, Faults: map[string]int{}}
	keys := map[string]bool{}
	ils := map[uint64]bool{}
	foundFP := map[string]*Found{}
	const keyCap = 400000
	start := time.Now()
	var hashLog *os.File
	if hl := os.Getenv("VERIF_HASHLOG"); hl != "" {
		hashLog, _ = os.Create(hl)
		defer hashLog.Close()
	}
	var curSeed uint64
	var curParams Params
	account := func(r *Result) {
		sum.Execs++
		if hashLog != nil {
			fmt.Fprintf(hashLog, "%s %d %d %d\n", r.EventHash, r.Steps, r.SimNS, len(r.Violations))
		}
		sum.Steps += int64(r.Steps)
		sum.Contended += int64(r.Contended)
		sum.SimNS += float64(r.SimNS)
		sum.Leaked += r.Leaked
		if r.Hung {
			sum.Hung++
			if len(sum.HungSeeds) < 5 {
				sum.HungSeeds = append(sum.HungSeeds, fmt.Sprintf("%d[%s]:%s", curSeed, curParams, r.Stuck))
			}
		}
		for k, v := range r.Probes {
			sum.Probes[k] += v
		}
		for k, v := range r.Faults {
			sum.Faults[k] += v
		}
		if r.Nontrivial && r.CaseKey != "" {
			if len(keys) < keyCap {
				keys[r.CaseKey] = true
			} else {
				sum.KeysCapped = true
			}
		}
		if r.Contended > 0 {
			if len(ils) < keyCap {
				ils[r.ILHash] = true
			} else {
				sum.KeysCapped = true
			}
		}
		if r.Infra != "" && len(sum.Infra) < 20 {
			sum.Infra = append(sum.Infra, fmt.Sprintf("seed %d: %s", curSeed, r.Infra))
		}
	}
	handle := func(seed uint64, params Params, r *Result) {
		seen := map[string]bool{}
		for _, v := range r.Violations {
			key := v.Class + "|" + v.FP
			if seen[key] {
				continue
			}
			seen[key] = true
			if f := foundFP[key]; f != nil {
				f.Count++
				continue
			}
			f := &Found{Seed: seed, Params: params, Class: v.Class, FP: v.FP, Detail: v.Detail, Count: 1}
			foundFP[key] = f
			if len(foundFP) > 3 {
				// enough minimised replays from this worker; further fingerprints are reported unminimised
				continue
			}
			rep, infra := confirmAndShrink(t, p, tier, seed, params, r, v)
			if infra != "" {
				sum.Infra = append(sum.Infra, infra)
				continue
			}
			path := filepath.Join(repDir, fmt.Sprintf("%s-%s-%x.json", id, slug(v.Class+"-"+v.FP), seed))
			if err := writeJSON(path, rep); err != nil {
				sum.Infra = append(sum.Infra, "cannot write replay: "+err.Error())
			}
			f.Replay = path
			f.Detail = rep.Expect.Detail
		}
	}
	rngState := base ^ 0x5851f42d4c957f2d
	rng := func(n int) int {
		if n <= 1 {
			return 0
		}
		rngState = rngState*6364136223846793005 + 1442695040888963407
		return int((rngState >> 33) % uint64(n))
	}
	for i := shard; i < runs; i += nshard {
		if time.Since(start) > budget {
			sum.Stopped = "wall-clock budget"
			break
		}
		seed := SeedFor(base, i)
		curSeed = seed
		curParams = nil
		if sum.Seeds == 0 {
			sum.FirstSeed = seed
		}
		sum.LastSeed = seed
		sum.Seeds++
		r := Exec(t, p, simrt.NewTape(seed, nil), tier, false)
		account(r)
		if len(sum.Samples) < 3 && r.Sample != nil && r.Nontrivial {
			sum.Samples = append(sum.Samples, map[string]any{"seed": seed, "case": r.Sample, "steps": r.Steps, "probes": r.Probes, "faults": r.Faults})
		}
		if len(r.Violations) > 0 {
			handle(seed, nil, r)
		} else if i%50 == 0 {
			// determinism spot check
			r2 := Exec(t, p, simrt.NewTape(seed, nil), tier, false)
			sum.DetReruns++
			if r2.EventHash != r.EventHash || r2.Steps != r.Steps {
				sum.DetMismatch++
				sum.Infra = append(sum.Infra, fmt.Sprintf("nondeterministic: seed %d event hash %s vs %s steps %d vs %d", seed, r.EventHash, r2.EventHash, r.Steps, r2.Steps))
			}
		}
		if p.Plan != nil && r.Infra == "" {
			plan := p.Plan(r, tier, posBudget, rng)
			complete := true
			for _, params := range plan {
				if time.Since(start) > budget {
					sum.Stopped = "wall-clock budget"
					complete = false
					break
				}
				if params["_partial"] != 0 {
					complete = false
					delete(params, "_partial")
				}
				curParams = params
				rp := Exec(t, p, simrt.NewTape(seed, params), tier, false)
				account(rp)
				sum.PosExecs++
				if len(rp.Violations) > 0 {
					handle(seed, params, rp)
				}
			}
			if complete {
				sum.PosComplete++
			}
		}
	}
	for k := range keys {
		sum.CaseKeys = append(sum.CaseKeys, k)
	}
	sort.Strings(sum.CaseKeys)
	for k := range ils {
		sum.ILHashes = append(sum.ILHashes, strconv.FormatUint(k, 16))
	}
	sort.Strings(sum.ILHashes)
	var fks []string
	for k := range foundFP {
		fks = append(fks, k)
	}
	sort.Strings(fks)
	for _, k := range fks {
		sum.Found = append(sum.Found, *foundFP[k])
	}
	sum.WallS = time.Since(start).Seconds()
	if out != "" {
		if err := writeJSON(out, sum); err != nil {
			fmt.Fprintln(os.Stderr, err)
			os.Exit(2)
		}
	} else {
		b, _ := json.MarshalIndent(sum, "", " ")
		fmt.Println(string(b))
	}
}

func replayMain(t *testing.T, p *Prop, path string) int {
	b, err := os.ReadFile(path)
	if err != nil {
		fmt.Fprintln(os.Stderr, err)
		return 2
	}
	var rep Replay
	if err := json.Unmarshal(b, &rep); err != nil {
		fmt.Fprintln(os.Stderr, err)
		return 2
	}
	tier := rep.Tier
	r := Exec(t, p, simrt.NewReplayTape(rep.Seed, rep.Params, rep.Streams), tier, true)
	v := firstViolation(r, rep.Expect.Class, rep.Expect.FP)
	res := map[string]any{"property": p.ID, "replay": path, "event_hash": r.EventHash, "expected_event_hash": rep.Expect.EventHash,
		"violations": r.Violations, "infra": r.Infra}
	switch {
	case v != nil && r.EventHash == rep.Expect.EventHash:
		res["outcome"] = "reproduced-exactly"
	case v != nil:
		res["outcome"] = "reproduced-violation-different-event-log"
	case len(r.Violations) > 0:
		res["outcome"] = "different-violation"
	default:
		res["outcome"] = "not-reproduced"
	}
	if os.Getenv("VERIF_REPLAY_TRACE") != "" {
		res["trace"] = r.Trace
	}
	out, _ := json.MarshalIndent(res, "", " ")
	fmt.Println(string(out))
	if o := os.Getenv("VERIF_OUT"); o != "" {
		os.WriteFile(o, out, 0o644)
	}
	if v != nil {
		fmt.Printf("VIOLATION property=%s replay=%s\n", p.ID, path)
		return 1
	}
	return 0
}
