package core

import (
	"fmt"
	"sort"
	"testing"
	"time"

	"github.com/regclient/regclient/internal/verif/simrt"
)

func cloneStreams(m map[string][]uint64) map[string][]uint64 {
	out := map[string][]uint64{}
	for k, v := range m {
		out[k] = append([]uint64(nil), v...)
	}
	return out
}

func totalDraws(m map[string][]uint64) int {
	n := 0
	for _, v := range m {
		n += len(v)
	}
	return n
}

func trimZeros(v []uint64) []uint64 {
	for len(v) > 0 && v[len(v)-1] == 0 {
		v = v[:len(v)-1]
	}
	return v
}

// confirmAndShrink re-executes a failing run from its recorded tape (it must
// reproduce the identical event log: otherwise the harness is not
// deterministic and the answer is "infrastructure error", never a verdict),
// then minimises the tape while the same violation class and fingerprint
// persists, and returns the replay.
func confirmAndShrink(t *testing.T, p *Prop, tier string, seed uint64, params Params, orig *Result, v Violation) (*Replay, string) {
	streams := cloneStreams(orig.Streams)
	execs := 0
	run := func(s map[string][]uint64, trace bool) *Result {
		execs++
		return Exec(t, p, simrt.NewReplayTape(seed, params, s), tier, trace)
	}
	r := run(streams, false)
	if r.EventHash != orig.EventHash || firstViolation(r, v.Class, v.FP) == nil {
		return nil, fmt.Sprintf("nondeterministic: seed %d params %s: replay from the recorded tape gave event hash %s (was %s), violation reproduced=%v",
			seed, params, r.EventHash, orig.EventHash, firstViolation(r, v.Class, v.FP) != nil)
	}
	before := totalDraws(streams)
	deadline := time.Now().Add(40 * time.Second)
	maxExecs := 600
	fails := func(s map[string][]uint64) bool {
		if execs >= maxExecs || time.Now().After(deadline) {
			return false
		}
		rr := run(s, false)
		return firstViolation(rr, v.Class, v.FP) != nil
	}
	skip := map[string]bool{}
	for _, n := range p.NoShrinkStreams {
		skip[n] = true
	}
	var names []string
	for n := range streams {
		if !skip[n] {
			names = append(names, n)
		}
	}
	// faults first, then inputs, then the schedule
	rank := func(n string) int {
		switch n {
		case "net", "disk", "fault":
			return 0
		case "gen":
			return 1
		case "cfg":
			return 2
		case "sched":
			return 3
		}
		return 1
	}
	sort.Slice(names, func(i, j int) bool {
		if rank(names[i]) != rank(names[j]) {
			return rank(names[i]) < rank(names[j])
		}
		return names[i] < names[j]
	})
	try := func(name string, cand []uint64) bool {
		c := cloneStreams(streams)
		c[name] = cand
		if fails(c) {
			streams = c
			return true
		}
		return false
	}
	for pass := 0; pass < 2; pass++ {
		progress := false
		for _, name := range names {
			cur := func() []uint64 { return streams[name] }
			if len(trimZeros(cur())) == 0 {
				streams[name] = nil
				continue
			}
			// a: everything simplest
			if try(name, nil) {
				progress = true
				continue
			}
			// b: shortest prefix (draws past the end are 0)
			lo, hi := 0, len(cur())
			for lo < hi {
				mid := (lo + hi) / 2
				if try(name, append([]uint64(nil), cur()[:mid]...)) {
					hi = mid
					progress = true
				} else {
					lo = mid + 1
				}
				if hi > len(cur()) {
					hi = len(cur())
				}
			}
			// c: zero blocks
			for size := len(cur()) / 2; size >= 1; size /= 2 {
				for off := 0; off < len(cur()); off += size {
					end := off + size
					if end > len(cur()) {
						end = len(cur())
					}
					nz := false
					for _, x := range cur()[off:end] {
						if x != 0 {
							nz = true
						}
					}
					if !nz {
						continue
					}
					cand := append([]uint64(nil), cur()...)
					for i := off; i < end; i++ {
						cand[i] = 0
					}
					if try(name, cand) {
						progress = true
					}
				}
			}
			// d: delete blocks (inputs and faults; shifts what follows)
			if rank(name) <= 1 {
				for size := 8; size >= 1; size /= 2 {
					for off := 0; off+size <= len(cur()); {
						cand := append([]uint64(nil), cur()[:off]...)
						cand = append(cand, cur()[off+size:]...)
						if try(name, cand) {
							progress = true
						} else {
							off += size
						}
					}
				}
			}
			// e: lower values
			for i := 0; i < len(cur()); i++ {
				x := cur()[i]
				if x <= 1 {
					continue
				}
				for _, nv := range []uint64{x / 2, x - 1} {
					cand := append([]uint64(nil), cur()...)
					cand[i] = nv
					if try(name, cand) {
						progress = true
						break
					}
				}
			}
			streams[name] = trimZeros(streams[name])
		}
		if !progress {
			break
		}
	}
	for n := range streams {
		streams[n] = trimZeros(streams[n])
	}
	final := run(streams, true)
	fv := firstViolation(final, v.Class, v.FP)
	if fv == nil {
		// trimming trailing zeros never changes a run; if it did, say so
		return nil, fmt.Sprintf("shrinker lost the violation for seed %d (harness reads the tape length?)", seed)
	}
	rep := &Replay{Property: p.ID, Seed: seed, Tier: tier, Params: params, Streams: streams}
	rep.Expect.Class = v.Class
	rep.Expect.FP = v.FP
	rep.Expect.EventHash = final.EventHash
	rep.Expect.Detail = fv.Detail
	rep.Shrink.Executions = execs
	rep.Shrink.DrawsFrom = before
	rep.Shrink.DrawsTo = totalDraws(streams)
	tr := final.Trace
	if len(tr) > 400 {
		tr = append(append([]string{}, tr[:100]...), append([]string{fmt.Sprintf("… %d events omitted …", len(tr)-300)}, tr[len(tr)-200:]...)...)
	}
	rep.Trace = tr
	return rep, ""
}
