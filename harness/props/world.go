package props

import (
	"log/slog"
	"net/http"
	"os"
	"time"

	"github.com/regclient/regclient"
	"github.com/regclient/regclient/config"
	"github.com/regclient/regclient/internal/verif/core"
	"github.com/regclient/regclient/internal/verif/regmodel"
	"github.com/regclient/regclient/internal/verif/simnet"
	"github.com/regclient/regclient/internal/verif/simrt"
	"github.com/regclient/regclient/scheme/reg"
)

// World is the simulated environment of one run: network, registries, client.
type World struct {
	E     *core.Env
	Net   *simnet.Net
	Regs  map[string]*regmodel.Reg
	Hosts []config.Host
	// client tuning drawn per run
	Chunk, MaxPut int64
	RetryLimit    int
	DelayInit     time.Duration
	DelayMax      time.Duration
	Concurrent    int64
	Cache         bool
	ExtraRegOpts  []reg.Opts
}

func newWorld(e *core.Env) *World {
	w := &World{E: e, Net: simnet.New(e.Tape), Regs: map[string]*regmodel.Reg{}}
	// swarm: tuning knobs vary per run so that correctness never depends on one configuration
	w.Chunk = int64([]int{0, 16, 64, 100, 256}[e.Choose("cfg", 5, "chunk")])
	w.MaxPut = int64([]int{0, 32, 128, 300}[e.Choose("cfg", 4, "maxput")])
	w.RetryLimit = []int{0, 2, 3, 5}[e.Choose("cfg", 4, "retry")]
	w.Concurrent = int64([]int{3, 1, 2}[e.Choose("cfg", 3, "concurrent")])
	w.Cache = e.Choose("cfg", 2, "cache") == 1
	switch e.Choose("cfg", 3, "delay") {
	case 1:
		w.DelayInit, w.DelayMax = 10*time.Millisecond, 200*time.Millisecond
	case 2:
		w.DelayInit, w.DelayMax = time.Second, 5*time.Second
	}
	switch e.Choose("cfg", 3, "latscale") {
	case 1:
		w.Net.LatMinUS, w.Net.LatMaxUS = 10, 500
	case 2:
		w.Net.LatMinUS, w.Net.LatMaxUS = 1000, 2000000
	}
	return w
}

// AddReg adds a registry model reachable as name.
func (w *World) AddReg(name string) *regmodel.Reg {
	g := regmodel.New(name)
	w.Regs[name] = g
	w.Net.Hosts[name] = g
	h := config.Host{Name: name, Hostname: name, TLS: config.TLSEnabled, ReqConcurrent: w.Concurrent}
	w.Hosts = append(w.Hosts, h)
	return g
}

// Host returns the client-side configuration entry for name (to edit before Client()).
func (w *World) Host(name string) *config.Host {
	for i := range w.Hosts {
		if w.Hosts[i].Name == name {
			return &w.Hosts[i]
		}
	}
	return nil
}

// Client builds a RegClient talking to the simulated network.
func (w *World) Client(extra ...regclient.Opt) *regclient.RegClient {
	ro := []reg.Opts{reg.WithHTTPClient(&http.Client{Transport: w.Net})}
	if w.Chunk > 0 || w.MaxPut > 0 {
		ro = append(ro, reg.WithBlobSize(w.Chunk, w.MaxPut))
	}
	if w.RetryLimit > 0 {
		ro = append(ro, reg.WithRetryLimit(w.RetryLimit))
	}
	if w.DelayInit > 0 {
		ro = append(ro, reg.WithDelay(w.DelayInit, w.DelayMax))
	}
	if w.Cache {
		ro = append(ro, reg.WithCache(5*time.Minute, 100))
	}
	ro = append(ro, w.ExtraRegOpts...)
	// (the caller's options first: a logger has to be in place before the host configuration is loaded, as in the CLIs)
	opts := append([]regclient.Opt{}, extra...)
	opts = append(opts, regclient.WithConfigHost(w.Hosts...), regclient.WithRegOpts(ro...))
	if lvl := os.Getenv("VERIF_RCLOG"); lvl != "" {
		// debugging aid for `verif.py one`: the client's own log on stderr
		l := slog.LevelWarn
		if lvl == "debug" {
			l = slog.LevelDebug
		}
		opts = append(opts, regclient.WithSlog(slog.New(slog.NewTextHandler(os.Stderr, &slog.HandlerOptions{Level: l}))))
	}
	return regclient.New(opts...)
}

// drainTasks lets tasks that outlive an operation (children still running
// after an early error return) finish, so that their late effects are seen.
func drainTasks(e *core.Env, rounds int) {
	for i := 0; i < rounds && e.Sched.Live() > 1; i++ {
		simrt.Sleep(10 * time.Second)
	}
}
