package props

import (
	"bytes"
	"context"
	"encoding/base64"
	"fmt"
	"io"
	"log/slog"
	"net/url"
	"regexp"
	"sort"
	"strings"
	"time"

	"github.com/opencontainers/go-digest"

	"github.com/regclient/regclient"
	"github.com/regclient/regclient/config"
	"github.com/regclient/regclient/internal/verif/core"
	"github.com/regclient/regclient/internal/verif/gen"
	"github.com/regclient/regclient/internal/verif/regmodel"
	"github.com/regclient/regclient/internal/verif/simnet"
	"github.com/regclient/regclient/internal/verif/simrt"
	"github.com/regclient/regclient/types"
	"github.com/regclient/regclient/types/descriptor"
)

// C11: credentials go only to their own registry, over its configured transport.
//
// Every host has unique secrets. Any host may answer 401 with an arbitrary
// challenge at any request position. The oracle is a taint scan over the
// complete request log (URL, headers, body) and over the trace-level log output.
func init() {
	core.Register(&core.Prop{ID: "C11", Run: runC11, MaxSteps: 300000})
}

type c11Owner struct {
	Name    string   `json:"host"`
	Scheme  string   `json:"auth"`
	TLS     bool     `json:"tls"`
	secrets []string // raw secrets configured for this registry
	tokens  *regmodel.TokenServer
	allowed map[string]bool // hosts that may see this owner's secrets
}

type byzHost struct {
	inner   simnet.Host
	at      map[int]string // request index at this host -> challenge to answer with
	n       int
	fired   int
	name    string
	onChall func(host, challenge string)
}

func (b *byzHost) Serve(req *simnet.Request) *simnet.Response {
	b.n++
	if c, ok := b.at[b.n]; ok {
		b.fired++
		r := simnet.NewResponse(401)
		for _, v := range strings.Split(c, "\n") {
			r.Header.Add("WWW-Authenticate", v)
		}
		r.Body = []byte(`{"errors":[{"code":"UNAUTHORIZED"}]}`)
		if b.onChall != nil {
			b.onChall(b.name, c)
		}
		return r
	}
	return b.inner.Serve(req)
}

var realmRe = regexp.MustCompile(`(?i)realm="([^"]*)"`)

func runC11(e *core.Env) {
	ctx := context.Background()
	w := newWorld(e)
	w.RetryLimit = 3
	w.DelayInit, w.DelayMax = 10*time.Millisecond, 200*time.Millisecond
	g := gen.New(e.Tape)
	// the external layer host may share the registry's host name and differ only in the port
	extName := "ext.test"
	if e.Choose("gen", 3, "extOnRegistryName") == 2 {
		extName = "up.test:8443"
		e.Probe("external-layer-host-on-the-registry's-name-other-port")
	}
	g.ExtHost = extName
	g.MaxBlob = 80
	gr := g.Graph(gen.Opts{NoDigestTags: true})
	schemes := []string{"none", "basic", "bearer", "bearer-post", "bearer-refresh"}
	owners := map[string]*c11Owner{}
	var ownerList []*c11Owner
	hostTLS := map[string]bool{}
	byz := map[string]*byzHost{}
	challengeIssuedBy := map[string][]string{} // host -> realm hosts it named
	noteChallenge := func(host, c string) {
		for _, m := range realmRe.FindAllStringSubmatch(c, -1) {
			if u, err := url.Parse(m[1]); err == nil && u.Host != "" {
				challengeIssuedBy[host] = append(challengeIssuedBy[host], u.Host)
			}
		}
	}
	evilChallenges := func(victim *c11Owner) []string {
		out := []string{`Basic realm="please log in"`, `Bearer realm="https://evil.test/token",service="evil"`, `Basic realm="a", Bearer realm="https://evil.test/t2",service="x",scope="repository:proj/app:pull"`,
			`Bearer realm="https://evil.test/token"` + "\n" + `Basic realm="second header"`, `Bearer service="no-realm"`, `Basic`, `Negotiate abcdef`}
		if victim != nil && victim.tokens != nil {
			out = append(out, `Bearer realm="https://auth.`+victim.Name+`/token",service="`+victim.Name+`"`)
		}
		if victim != nil {
			out = append(out, `Basic realm="`+victim.Name+`"`)
		}
		return out
	}
	addRegistry := func(name string, install bool) (*regmodel.Reg, *c11Owner) {
		reg := w.AddReg(name)
		o := &c11Owner{Name: name, Scheme: schemes[e.Choose("gen", len(schemes), "scheme")], TLS: e.Choose("gen", 4, "tls") != 3, allowed: map[string]bool{name: true}}
		hostTLS[name] = o.TLS
		h := w.Host(name)
		if !o.TLS {
			h.TLS = config.TLSDisabled
		} else if e.Choose("gen", 3, "tlsinsecure") == 2 {
			// TLS without certificate verification is still TLS: nothing may travel in clear text
			h.TLS = config.TLSInsecure
		}
		h.RepoAuth = e.Choose("gen", 3, "repoauth") == 2
		user, pass, ident := "user-"+name+"-Uq7", "pass-"+name+"-Zx9!w", "ident-"+name+"-Tk3"
		ar := &regmodel.AuthReg{Inner: reg, Name: name, User: user, Pass: pass}
		switch o.Scheme {
		case "none":
			// credentials are configured all the same: they must still not travel anywhere else
			h.User, h.Pass = user, pass
			o.secrets = []string{user, pass}
			ar.Scheme = "none"
		case "basic":
			h.User, h.Pass = user, pass
			o.secrets = []string{user, pass}
			ar.Scheme = "basic"
		case "bearer", "bearer-refresh":
			h.User, h.Pass = user, pass
			o.secrets = []string{user, pass}
			ar.Scheme = "bearer"
			o.tokens = regmodel.NewTokenServer(name, user, pass, "")
			o.tokens.GiveRefresh = o.Scheme == "bearer-refresh"
		case "bearer-post":
			h.Token = ident
			o.secrets = []string{ident}
			ar.Scheme = "bearer"
			o.tokens = regmodel.NewTokenServer(name, "", "", ident)
		}
		if o.tokens != nil {
			o.tokens.ExpiresIn = []int{300, 60, 30}[e.Choose("gen", 3, "expiry")]
			th := "auth." + name
			ar.Realm, ar.Service, ar.Tokens = "https://"+th+"/token", name, o.tokens
			bt := &byzHost{inner: o.tokens, name: th, at: map[int]string{}, onChall: noteChallenge}
			byz[th] = bt
			w.Net.Hosts[th] = bt
			challengeIssuedBy[name] = append(challengeIssuedBy[name], th)
			hostTLS[th] = true
		}
		b := &byzHost{inner: ar, name: name, at: map[int]string{}, onChall: noteChallenge}
		byz[name] = b
		w.Net.Hosts[name] = b
		owners[name] = o
		ownerList = append(ownerList, o)
		if install {
			gr.Install(reg, "proj/app", "v1")
		}
		return reg, o
	}
	up, upO := addRegistry("up.test", true)
	var tgtO *c11Owner
	topo := []string{"up"}
	if e.Choose("gen", 2, "second") == 1 {
		_, tgtO = addRegistry("tgt.test", false)
		topo = append(topo, "second-registry")
	}
	if e.Choose("gen", 3, "mirror") == 2 {
		mreg, _ := addRegistry("m1.test", e.Choose("gen", 2, "mirrorhas") == 1)
		_ = mreg
		w.Host("up.test").Mirrors = []string{"m1.test"}
		topo = append(topo, "mirror")
	}
	// blob redirect to a third host without credentials
	cdn := &byzHost{inner: &regmodel.CDN{Origin: up}, name: "cdn.test", at: map[int]string{}, onChall: noteChallenge}
	byz["cdn.test"] = cdn
	w.Net.Hosts["cdn.test"] = cdn
	hostTLS["cdn.test"] = true
	switch e.Choose("gen", 4, "redirect") {
	case 1, 2:
		up.K.BlobRedirect = "cdn.test"
		topo = append(topo, "blob-redirect")
	case 3:
		// a registry that redirects to itself over clear text
		up.K.BlobRedirect = "up.test"
		up.K.BlobRedirectScheme = "http"
		topo = append(topo, "redirect-to-own-host-clear-text")
	}
	// external layer host
	ext := &extHost{data: map[string][]byte{}, gets: map[string]int{}}
	for _, n := range gr.AllNodes() {
		for _, b := range n.Blobs {
			if b.External {
				ext.data[b.Desc.Digest] = b.Data
			}
		}
	}
	extB := &byzHost{inner: ext, name: extName, at: map[int]string{}, onChall: noteChallenge}
	byz[extName] = extB
	w.Net.Hosts[extName] = extB
	hostTLS[extName] = true
	evil := &byzHost{inner: regmodel.NewTokenServer("evil", "", "", ""), name: "evil.test", at: map[int]string{}}
	w.Net.Hosts["evil.test"] = evil
	// byzantine 401s: any host, any position
	var hostNames []string
	for n := range byz {
		hostNames = append(hostNames, n)
	}
	sort.Strings(hostNames)
	var plan []string
	for i, n := 0, e.Choose("net", 4, "n401"); i < n; i++ {
		hn := hostNames[e.Choose("net", len(hostNames), "host")]
		victims := []*c11Owner{nil, upO, tgtO}
		cs := evilChallenges(victims[e.Choose("net", len(victims), "victim")])
		c := cs[e.Choose("net", len(cs), "challenge")]
		at := 1 + e.Choose("net", 6, "at")
		byz[hn].at[at] = c
		plan = append(plan, fmt.Sprintf("%s#%d: %s", hn, at, strings.Replace(c, "\n", " | ", -1)))
	}
	// a host entry without a name (a configuration file edited by hand): the client ignores it with a warning,
	// and that warning is log output like any other
	if e.Choose("gen", 3, "namelessEntry") == 2 {
		orphan := &c11Owner{Name: "(host entry without a name)", Scheme: "ignored", TLS: true, allowed: map[string]bool{}}
		orphan.secrets = []string{"user-orphan-Lw2", "pass-orphan-Qm4!z", "ident-orphan-Hv8"}
		w.Hosts = append(w.Hosts, config.Host{User: orphan.secrets[0], Pass: orphan.secrets[1], Token: orphan.secrets[2]})
		ownerList = append(ownerList, orphan)
		e.Probe("host-entry-without-a-name")
	}
	// client with trace logging captured
	var logBuf bytes.Buffer
	logger := slog.New(slog.NewTextHandler(&logBuf, &slog.HandlerOptions{Level: types.LevelTrace}))
	rc := w.Client(regclient.WithSlog(logger))
	ops := []string{"image-copy", "blob-get", "manifest-get", "tag-list", "referrer-list", "blob-put", "manifest-head", "image-copy-external"}
	var prog []string
	for i, n := 0, 1+e.Choose("gen", 3, "nops"); i < n; i++ {
		prog = append(prog, ops[e.Choose("gen", len(ops), "op")])
	}
	sample := map[string]any{"topology": topo, "hosts": ownerList, "injected_401": plan, "operations": prog}
	e.SetCase(fmt.Sprintf("%v|%+v|%v|%v|%s", topo, ownerList, plan, prog, gr.Root.Digest), true, sample)
	var someBlob *gen.Blob
	for _, n := range gr.AllNodes() {
		for _, b := range n.Blobs {
			if b.Hosted && !b.External && someBlob == nil && len(b.Data) > 0 {
				someBlob = b
			}
		}
	}
	tgtName := "up.test/copy/app"
	if tgtO != nil {
		tgtName = "tgt.test/mirror/app"
	}
	for i, op := range prog {
		if i > 0 && e.Choose("gen", 3, "gap") == 2 {
			simrt.Sleep(time.Duration(40+e.Choose("gen", 400, "gapsec")) * time.Second) // token expiry
			e.Probe("gap-for-token-expiry")
		}
		var err error
		switch op {
		case "image-copy":
			err = rc.ImageCopy(ctx, mustRef("up.test/proj/app:v1"), mustRef(tgtName+":v1"), regclient.ImageWithReferrers())
			drainTasks(e, 10)
		case "image-copy-external":
			err = rc.ImageCopy(ctx, mustRef("up.test/proj/app:v1"), mustRef(tgtName+":v1"), regclient.ImageWithIncludeExternal())
			drainTasks(e, 10)
		case "blob-get":
			if someBlob != nil {
				rdr, gerr := rc.BlobGet(ctx, mustRef("up.test/proj/app"), descriptor.Descriptor{Digest: digest.Digest(someBlob.Desc.Digest), Size: int64(len(someBlob.Data))})
				err = gerr
				if gerr == nil {
					_, err = io.ReadAll(rdr)
					_ = rdr.Close()
				}
			}
		case "manifest-get":
			_, err = rc.ManifestGet(ctx, mustRef("up.test/proj/app:v1"))
		case "manifest-head":
			_, err = rc.ManifestHead(ctx, mustRef("up.test/proj/app:v1"))
		case "tag-list":
			_, err = rc.TagList(ctx, mustRef("up.test/proj/app"))
		case "referrer-list":
			_, err = rc.ReferrerList(ctx, mustRef("up.test/proj/app@"+gr.Root.Digest))
		case "blob-put":
			data := []byte("c11 blob put payload")
			_, err = rc.BlobPut(ctx, mustRef(tgtName), descriptor.Descriptor{Digest: digest.FromBytes(data), Size: int64(len(data))}, bytes.NewReader(data))
		}
		simrt.Event("op %s -> %v", op, err)
		if err == nil {
			e.Probe("op-ok:" + op)
		} else {
			e.Probe("op-failed")
		}
	}
	// ---- the taint scan
	for _, o := range ownerList {
		for _, h := range challengeIssuedBy[o.Name] {
			o.allowed[h] = true // the token endpoint this registry itself named in a challenge
		}
	}
	type secret struct {
		owner *c11Owner
		forms []string
		what  string
	}
	var secrets []secret
	forms := func(s string) []string {
		f := []string{s, url.QueryEscape(s), base64.StdEncoding.EncodeToString([]byte(s))}
		return f
	}
	for _, o := range ownerList {
		for _, s := range o.secrets {
			secrets = append(secrets, secret{o, forms(s), "configured credential " + s[:4] + "…"})
		}
		if len(o.secrets) == 2 {
			up := o.secrets[0] + ":" + o.secrets[1]
			secrets = append(secrets, secret{o, []string{base64.StdEncoding.EncodeToString([]byte(up))}, "basic auth of " + o.Name})
		}
		if o.tokens != nil {
			for _, t := range o.tokens.AllTokens() {
				secrets = append(secrets, secret{o, []string{t, url.QueryEscape(t)}, "token issued for " + o.Name + " (" + t[:12] + "…)"})
				e.Probe("token-issued")
			}
		}
	}
	for _, x := range w.Net.Log {
		if x.NotSent {
			continue
		}
		hay := x.Path + "?" + x.Query + "\n" + string(x.ReqBody)
		var hk []string
		for k := range x.ReqHeader {
			hk = append(hk, k)
		}
		sort.Strings(hk)
		for _, k := range hk {
			hay += "\n" + k + ": " + strings.Join(x.ReqHeader[k], ",")
		}
		if x.ReqHeader.Get("Authorization") != "" {
			e.Probe("request-with-authorization")
		}
		if x.Redirect {
			e.Probe("redirect-followed")
		}
		for _, s := range secrets {
			hit := false
			for _, f := range s.forms {
				if f != "" && strings.Contains(hay, f) {
					hit = true
				}
			}
			if !hit {
				continue
			}
			if !s.owner.allowed[x.Host] {
				role := "another host"
				switch {
				case x.Host == "cdn.test":
					role = "the redirect target"
				case x.Host == extName:
					role = "the external layer host"
				case x.Host == "evil.test":
					role = "a token endpoint named by a host other than the registry"
				case strings.HasPrefix(x.Host, "auth."):
					role = "another registry's token endpoint"
				case owners[x.Host] != nil:
					role = "another registry or mirror"
				}
				// the mechanism is part of the fingerprint: did the destination (or the host that named it
				// as a token endpoint) first answer 401 with a challenge, or did the secret travel unprompted?
				mech := "unprompted"
				for namer, named := range challengeIssuedBy {
					for _, h := range named {
						if h == x.Host && !s.owner.allowed[namer] {
							mech = "named-in-the-401-challenge-of-another-host"
						}
					}
				}
				if mech == "unprompted" {
					for _, p := range w.Net.Log {
						if p.Seq >= x.Seq {
							break
						}
						if p.Status == 401 && p.Host == x.Host {
							mech = "after-its-401-challenge"
						}
					}
				}
				role += " " + mech
				e.Violation("leak", "secret-sent-to:"+strings.Replace(role, " ", "-", -1), "request #%d %s %s://%s%s carried the %s of %s to %s (%s); injected challenges: %v; topology %v", x.Seq, x.Method, x.Scheme, x.Host, x.Path, s.what, s.owner.Name, x.Host, role, plan, topo)
			} else if x.Scheme == "http" && hostTLS[x.Host] {
				e.Violation("clear-text", "secret-in-clear-text", "request #%d %s http://%s%s carried the %s over clear text although %s is configured for TLS", x.Seq, x.Method, x.Host, x.Path, s.what, x.Host)
			}
		}
	}
	logs := logBuf.String()
	for _, s := range secrets {
		if strings.HasPrefix(s.what, "configured credential user") {
			// the log clause speaks of secrets: a bare user name (it travels in the token URL as
			// "account=") is an identifier; passwords, tokens and basic-auth strings are checked
			continue
		}
		for _, f := range s.forms {
			if f != "" && strings.Contains(logs, f) {
				e.Violation("log", "secret-in-log", "the %s appears in the log output", s.what)
				break
			}
		}
	}
	if len(logs) > 0 {
		e.Probe("log-captured")
	}
	for _, b := range byz {
		if b.fired > 0 {
			e.Fault("injected-401")
		}
	}
}
