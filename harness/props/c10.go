package props

import (
	"context"
	"fmt"
	"sort"
	"strings"
	"time"

	"github.com/regclient/regclient"
	"github.com/regclient/regclient/internal/verif/core"
	"github.com/regclient/regclient/internal/verif/gen"
	"github.com/regclient/regclient/internal/verif/regmodel"
	"github.com/regclient/regclient/internal/verif/simrt"
	"github.com/regclient/regclient/scheme"
	"github.com/regclient/regclient/types/descriptor"
)

// C10: the referrers of a subject are exactly the live manifests that name it.
func init() {
	core.Register(&core.Prop{ID: "C10", Run: runC10, MaxSteps: 400000})
}

type c10Op struct {
	Kind string `json:"op"` // put, delete, list, wait
	A    int    `json:"artifact"`
	Tag  bool   `json:"by_tag,omitempty"` // put: pushed as repo:tag instead of by digest
}

var c10Types = []string{"application/vnd.example.sbom", "application/vnd.example.sig", "application/vnd.example.att"}

func runC10(e *core.Env) {
	if e.Choose("gen", 5, "mode") == 4 {
		c10Options(e)
		return
	}
	ctx := context.Background()
	w := newWorld(e)
	g := gen.New(e.Tape)
	g.MaxBlob = 60
	g.NoExt = true
	subj0 := g.Image(false)
	ghost := g.Image(false) // a subject that is never stored
	useLayout := e.Choose("gen", 4, "endpoint") == 3
	ep := &endpoint{}
	if useLayout {
		ep.dir = e.TempDir()
	} else {
		reg := w.AddReg("reg.test")
		reg.K.Referrers = e.Choose("gen", 2, "refapi") == 0
		reg.K.ReferrersPage = []int{0, 1, 2}[e.Choose("gen", 3, "refpage")]
		reg.K.TagDelete = e.Choose("gen", 2, "tagdelete") == 0
		ep.reg, ep.repo = reg, "proj/app"
	}
	w.Cache = e.Choose("gen", 2, "cache") == 1
	rc := w.Client()
	base := strings.TrimSuffix(ep.refStr("x"), ":x")
	if err := pushNode(ctx, rc, base, subj0, "v1", false); err != nil {
		e.Violation("vacuity", "subject-push-failed", "pushing the subject failed: %v", err)
		return
	}
	// pool of artifacts: over two subjects and three types, plus a referrer of a referrer
	var arts []*gen.Node
	for i := 0; i < 5; i++ {
		s := subj0
		if e.Choose("gen", 4, "ghost") == 3 {
			s = ghost
		}
		// annotations: some, an empty object, or none at all
		g.ArtifactAnnotMode = []int{0, 0, 1, 2, 3}[e.Choose("gen", 5, "annot")]
		a := g.Artifact(s, c10Types[e.Choose("gen", 3, "type")])
		for _, o := range arts {
			if o.Digest == a.Digest {
				// (without a distinguishing annotation two artifacts over an empty blob are the same manifest)
				g.ArtifactAnnotMode = 0
				a = g.Artifact(s, a.ArtType)
			}
		}
		if g.ArtifactAnnotMode != 0 {
			e.Probe("artifact-without-annotations")
		}
		arts = append(arts, a)
	}
	g.ArtifactAnnotMode = 0
	arts = append(arts, g.Artifact(arts[0], c10Types[e.Choose("gen", 3, "type")])) // referrer of a referrer
	subjects := []string{subj0.Digest, ghost.Digest, arts[0].Digest}
	live := map[string]bool{} // digest -> stored
	// filters: "" none, an artifact type, "ann-key" (the annotation org.example.serial is set, any value),
	// "ann-value" (it has the value the first artifact carries)
	serialOf0 := arts[0].Annot["org.example.serial"]
	truth := func(subject, filt string) []string {
		var out []string
		for _, a := range arts {
			if !live[a.Digest] || a.Subject != subject {
				continue
			}
			v, has := a.Annot["org.example.serial"]
			switch {
			case filt == "", filt == "ann-key" && has, filt == "ann-value" && has && v == serialOf0 && serialOf0 != "", filt == a.ArtType:
				out = append(out, a.Digest)
			}
		}
		sort.Strings(out)
		return uniq(out)
	}
	byDigest := map[string]*gen.Node{}
	for _, a := range arts {
		byDigest[a.Digest] = a
	}
	var listCheckWith func(c *regclient.RegClient, where string, report bool) bool
	listCheck := func(where string) bool { return listCheckWith(rc, where, true) }
	listCheckWith = func(rc *regclient.RegClient, where string, report bool) bool {
		viol := func(class, fp, format string, a ...any) {
			if report {
				e.Violation(class, fp, format, a...)
			}
		}
		for _, s := range subjects {
			for _, at := range []string{"", c10Types[0], "ann-key", "ann-value"} {
				var opts []scheme.ReferrerOpts
				switch at {
				case "":
				case "ann-key":
					opts = append(opts, scheme.WithReferrerMatchOpt(descriptor.MatchOpt{Annotations: map[string]string{"org.example.serial": ""}}))
				case "ann-value":
					if serialOf0 == "" {
						continue
					}
					opts = append(opts, scheme.WithReferrerMatchOpt(descriptor.MatchOpt{Annotations: map[string]string{"org.example.serial": serialOf0}}))
				default:
					opts = append(opts, scheme.WithReferrerMatchOpt(descriptor.MatchOpt{ArtifactType: at}))
				}
				rl, err := rc.ReferrerList(ctx, mustRef(base+"@"+s), opts...)
				if err != nil {
					viol("list", "list-failed", "%s: ReferrerList(%s, filter %q) failed: %v", where, short(s), at, err)
					return false
				}
				var got []string
				for _, d := range rl.Descriptors {
					got = append(got, d.Digest.String())
					a := byDigest[d.Digest.String()]
					if a != nil {
						if d.ArtifactType != a.ArtType {
							viol("list", "wrong-artifact-type", "%s: referrer %s listed with artifactType %q, its manifest says %q", where, short(a.Digest), d.ArtifactType, a.ArtType)
							return false
						}
						for k, v := range a.Annot {
							if d.Annotations[k] != v {
								viol("list", "wrong-annotations", "%s: referrer %s listed without annotation %s=%s", where, short(a.Digest), k, v)
								return false
							}
						}
					}
				}
				sort.Strings(got)
				want := truth(s, at)
				if strings.Join(got, ",") != strings.Join(want, ",") {
					kind := "referrers-differ"
					switch {
					case len(got) != len(uniq(got)):
						kind = "referrer-duplicated"
					case len(uniq(got)) < len(want):
						kind = "referrer-lost"
					case len(uniq(got)) > len(want):
						kind = "referrer-left-over"
					}
					if at != "" {
						kind += "(filtered)"
					}
					viol("list", kind, "%s: ReferrerList(%s, filter %q) = %v, stored manifests naming it = %v", where, short(s), at, shortAll(got), shortAll(want))
					return false
				}
			}
		}
		return true
	}
	do := func(op c10Op) error {
		a := arts[op.A]
		switch op.Kind {
		case "put":
			tag := ""
			if op.Tag {
				tag = fmt.Sprintf("art-%d", op.A)
				e.Probe("referrer-pushed-by-tag")
			}
			err := pushNode(ctx, rc, base, a, tag, false)
			if err == nil {
				live[a.Digest] = true
			}
			return err
		case "delete":
			err := rc.ManifestDelete(ctx, mustRef(base+"@"+a.Digest), regclient.WithManifestCheckReferrers())
			if err == nil {
				delete(live, a.Digest)
			}
			return err
		case "wait":
			// cross the 5-minute feature cache and the response cache age
			simrt.Sleep(time.Duration(1+op.A) * 2 * time.Minute)
		}
		return nil
	}
	kinds := []string{"put", "put", "put", "delete", "delete", "wait"}
	concurrent := e.Choose("gen", 3, "concurrent") == 2
	sample := map[string]any{"endpoint": map[bool]string{true: "layout", false: "registry"}[useLayout], "cache": w.Cache, "concurrent": concurrent}
	if !useLayout {
		sample["registry"] = fmt.Sprintf("referrersAPI=%v page=%d tagDelete=%v", ep.reg.K.Referrers, ep.reg.K.ReferrersPage, ep.reg.K.TagDelete)
		if ep.reg.K.Referrers {
			e.Probe("referrers-api")
		} else {
			e.Probe("fallback-tag")
		}
	} else {
		e.Probe("layout")
	}
	if !concurrent {
		var ops []c10Op
		for i, n := 0, 3+e.Choose("gen", 14, "nops"); i < n; i++ {
			ops = append(ops, c10Op{Kind: kinds[e.Choose("gen", len(kinds), "kind")], A: e.Choose("gen", len(arts), "a"), Tag: e.Choose("gen", 3, "bytag") == 2})
		}
		sample["history"] = ops
		e.SetCase(fmt.Sprintf("%v|%v|%s", sample, ops, subj0.Digest), true, sample)
		for i, op := range ops {
			wasLive := live[arts[op.A].Digest]
			err := do(op)
			where := fmt.Sprintf("step %d %s(a%d)", i, op.Kind, op.A)
			simrt.Event("%s -> %v", where, err)
			e.Probe("op:" + op.Kind)
			if err != nil {
				if op.Kind == "put" || (op.Kind == "delete" && wasLive) {
					e.Violation("op", "op-failed:"+op.Kind, "%s failed on a fault-free endpoint: %v", where, err)
					return
				}
				e.Probe("delete-of-absent")
			}
			if op.Kind == "delete" && err == nil && len(truth(arts[op.A].Subject, "")) == 0 {
				e.Probe("deleted-last-referrer")
			}
			if !listCheck("after " + where) {
				return
			}
			// without the API the client-managed fallback tag equals the set
			if !useLayout && !ep.reg.K.Referrers {
				st := ep.store()
				for _, s := range subjects {
					got := st.ReferrersOf(s)
					sort.Strings(got)
					if want := truth(s, ""); strings.Join(got, ",") != strings.Join(want, ",") {
						e.Violation("fallback-tag", "fallback-tag-differs", "after %s the fallback tag of %s lists %v, stored manifests naming it = %v", where, short(s), shortAll(got), shortAll(want))
						return
					}
				}
			}
		}
		return
	}
	// ---- concurrent updates to one subject through one client
	nt := 2 + e.Choose("gen", 3, "tasks")
	// artifacts naming subj0 only, each used by at most one task (so that the final truth is schedule independent)
	var pool []int
	for i, a := range arts {
		if a.Subject == subj0.Digest {
			pool = append(pool, i)
		}
	}
	// some exist before the concurrent phase so that deletions have something to delete
	pre := map[int]bool{}
	for _, i := range pool {
		if e.Choose("gen", 2, "pre") == 1 {
			if err := do(c10Op{Kind: "put", A: i}); err != nil {
				e.Violation("op", "op-failed:put", "pre-put failed: %v", err)
				return
			}
			pre[i] = true
		}
	}
	type task struct {
		Ops []c10Op `json:"ops"`
	}
	tasks := make([]task, nt)
	for k, i := range pool {
		t := k % nt
		if pre[i] {
			tasks[t].Ops = append(tasks[t].Ops, c10Op{Kind: "delete", A: i})
		} else {
			tasks[t].Ops = append(tasks[t].Ops, c10Op{Kind: "put", A: i, Tag: e.Choose("gen", 3, "bytag") == 2})
		}
		if e.Choose("gen", 3, "readalso") == 1 {
			tasks[t].Ops = append(tasks[t].Ops, c10Op{Kind: "list"})
		}
	}
	sample["tasks"] = tasks
	sample["pre_existing"] = len(pre)
	e.SetCase(fmt.Sprintf("%v|%v|%s", sample, tasks, subj0.Digest), len(pool) >= 2, sample)
	doneCh := make(chan struct{})
	left := nt
	var failed []string
	for t := range tasks {
		t := t
		simrt.Go(func() {
			defer func() {
				left--
				if left == 0 {
					close(doneCh)
				}
			}()
			for _, op := range tasks[t].Ops {
				if op.Kind == "list" {
					_, _ = rc.ReferrerList(ctx, mustRef(base+"@"+subj0.Digest))
					continue
				}
				if err := do(op); err != nil {
					failed = append(failed, fmt.Sprintf("task %d %s(a%d): %v", t, op.Kind, op.A, err))
				}
				simrt.Event("task %d %s a%d done", t, op.Kind, op.A)
			}
		})
	}
	<-doneCh
	simrt.Yield("joined")
	e.Probe("concurrent-updates")
	if len(failed) > 0 {
		e.Violation("op", "concurrent-op-failed", "concurrent updates failed on a fault-free endpoint: %s", strings.Join(failed, "; "))
		return
	}
	// at quiescence: the listing equals the stored manifests naming the subject (lost-update / stale-cache detector)
	if !listCheckWith(rc, "at quiescence after concurrent updates", false) {
		// who is wrong: the stored state, or this client's cached view of it? ask a fresh client
		fresh := w.Client()
		if listCheckWith(fresh, "", false) {
			anyList := false
			for _, t := range tasks {
				for _, op := range t.Ops {
					if op.Kind == "list" {
						anyList = true
					}
				}
			}
			if anyList && w.Cache {
				e.Violation("stale-cache", "stale-cache-after-list-racing-update", "at quiescence the client that performed the updates lists referrers that differ from the stored manifests, while a fresh client lists them correctly: a ReferrerList that overlapped the updates stored its outdated answer in the response cache after the updates had invalidated it")
			} else {
				listCheckWith(rc, "at quiescence after concurrent updates (a fresh client sees the right set)", true)
			}
		} else {
			listCheckWith(rc, "at quiescence after concurrent updates", true)
		}
	}
	_ = regmodel.IsDigest
}

func uniq(s []string) []string {
	var out []string
	for i, x := range s {
		if i == 0 || x != s[i-1] {
			out = append(out, x)
		}
	}
	return out
}


// c10Options: the list side of the property under its option combinations. The subject is a multi-platform
// index; referrers exist for the index and for its platform images, in the subject's own repository and in a
// separate repository on another registry (WithReferrerSource). The two registries differ independently in
// whether they implement the referrers API. A tape-drawn sequence of listings (by tag, by digest, by
// tag+digest; with and without a platform; from the repository itself or from the external source; with
// pauses that cross the 5-minute feature cache) must each return exactly the stored manifests that name the
// subject the request designates, wherever it asked.
func c10Options(e *core.Env) {
	ctx := context.Background()
	w := newWorld(e)
	g := gen.New(e.Tape)
	g.MaxBlob = 60
	g.NoExt = true
	home := w.AddReg("reg.test")
	ext := w.AddReg("ext.test")
	home.K.Referrers = e.Choose("gen", 2, "homeapi") == 0
	ext.K.Referrers = e.Choose("gen", 2, "extapi") == 0
	home.K.ReferrersPage = []int{0, 1}[e.Choose("gen", 2, "homepage")]
	ext.K.ReferrersPage = []int{0, 1}[e.Choose("gen", 2, "extpage")]
	w.Cache = e.Choose("gen", 2, "cache") == 1
	useLayoutHome := e.Choose("gen", 4, "homelayout") == 3
	rc := w.Client()
	homeBase := "reg.test/proj/app"
	if useLayoutHome {
		homeBase = "ocidir://" + e.TempDir()
	}
	extBase := "ext.test/refs/app"
	kids := []*gen.Node{g.Image(false), g.Image(false)}
	ix := g.Index(false, kids, nil)
	if err := pushNode(ctx, rc, homeBase, ix, "v1", false); err != nil {
		e.Violation("vacuity", "subject-push-failed", "pushing the subject failed: %v", err)
		return
	}
	// referrers: in the home repository and in the external one, for the index and for each platform image
	type stored struct {
		where   string // home, ext
		subject string
		n       *gen.Node
	}
	var all []stored
	subjects := []*gen.Node{ix, kids[0], kids[1]}
	for _, where := range []string{"home", "ext"} {
		for _, s := range subjects {
			for k, n := 0, e.Choose("gen", 3, "nrefs"); k < n; k++ {
				a := g.Artifact(s, c10Types[e.Choose("gen", 3, "type")])
				base := homeBase
				if where == "ext" {
					base = extBase
				}
				if err := pushNode(ctx, rc, base, a, "", false); err != nil {
					e.Violation("op", "op-failed:put", "pushing a referrer to %s failed on a fault-free endpoint: %v", base, err)
					return
				}
				all = append(all, stored{where, s.Digest, a})
			}
		}
	}
	truth := func(where, subject string) []string {
		var out []string
		for _, x := range all {
			if x.where == where && x.subject == subject {
				out = append(out, x.n.Digest)
			}
		}
		sort.Strings(out)
		return out
	}
	type listing struct {
		Ref      string `json:"ref"`      // tag, digest, tag+digest
		Platform string `json:"platform"` // "", linux/amd64, linux/arm64/v8
		Source   string `json:"source"`   // home, ext (WithReferrerSource), ext-direct (the external repository asked by itself)
		Wait     int    `json:"wait_min"`
	}
	var seq []listing
	for i, n := 0, 3+e.Choose("gen", 6, "nlist"); i < n; i++ {
		seq = append(seq, listing{
			Ref:      []string{"tag", "digest", "tag+digest"}[e.Choose("gen", 3, "refkind")],
			Platform: []string{"", "", "linux/amd64", "linux/arm64/v8"}[e.Choose("gen", 4, "platform")],
			Source:   []string{"home", "ext", "ext", "ext-direct"}[e.Choose("gen", 4, "source")],
			Wait:     []int{0, 0, 0, 6}[e.Choose("gen", 4, "wait")],
		})
	}
	sample := map[string]any{"mode": "list options", "home": fmt.Sprintf("layout=%v referrersAPI=%v", useLayoutHome, home.K.Referrers), "external": fmt.Sprintf("referrersAPI=%v", ext.K.Referrers), "cache": w.Cache, "listings": seq}
	e.SetCase(fmt.Sprintf("opts|%v|%s", sample, ix.Digest), true, sample)
	e.Probe("mode:list-options")
	for i, l := range seq {
		if l.Wait > 0 {
			simrt.Sleep(time.Duration(l.Wait) * time.Minute)
		}
		base := homeBase
		if l.Source == "ext-direct" {
			// the external repository holds no copy of the subject: it can only be asked by digest, without a platform
			base = extBase
			l.Ref, l.Platform = "digest", ""
		}
		var r string
		switch l.Ref {
		case "tag":
			r = base + ":v1"
		case "digest":
			r = base + "@" + ix.Digest
		default:
			r = base + ":v1@" + ix.Digest
		}
		var opts []scheme.ReferrerOpts
		wantSubject := ix.Digest
		switch l.Platform {
		case "linux/amd64":
			wantSubject = kids[0].Digest
			opts = append(opts, scheme.WithReferrerPlatform(l.Platform))
		case "linux/arm64/v8":
			wantSubject = kids[1].Digest
			opts = append(opts, scheme.WithReferrerPlatform(l.Platform))
		}
		where := "home"
		if l.Source == "ext" {
			opts = append(opts, scheme.WithReferrerSource(mustRef(extBase)))
			where = "ext"
			e.Probe("list-from-external-source")
		} else if l.Source == "ext-direct" {
			where = "ext"
		}
		if l.Platform != "" && l.Ref != "tag" {
			e.Probe("platform-of-digest-pinned-subject")
		}
		rl, err := rc.ReferrerList(ctx, mustRef(r), opts...)
		desc := fmt.Sprintf("listing %d (%s, platform %q, source %s)", i, l.Ref, l.Platform, l.Source)
		simrt.Event("%s -> %d referrers, err %v", desc, len(rl.Descriptors), err)
		if err != nil {
			e.Violation("list", "list-failed", "%s failed on a fault-free endpoint: %v", desc, err)
			return
		}
		var got []string
		for _, d := range rl.Descriptors {
			got = append(got, d.Digest.String())
		}
		sort.Strings(got)
		want := truth(where, wantSubject)
		if strings.Join(got, ",") != strings.Join(want, ",") {
			kind := "referrers-differ"
			switch {
			case len(got) != len(uniq(got)):
				kind = "referrer-duplicated"
			case len(got) < len(want):
				kind = "referrer-lost"
			case len(got) > len(want):
				kind = "referrer-left-over"
			}
			e.Violation("list", kind+"(options)", "%s = %v, manifests stored there that name %s = %v", desc, shortAll(got), short(wantSubject), shortAll(want))
			return
		}
	}
}
