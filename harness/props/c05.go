package props

import (
	"bytes"
	"context"
	"fmt"
	"io"
	"os"
	"path/filepath"
	"strings"

	"github.com/opencontainers/go-digest"

	"github.com/regclient/regclient"
	"github.com/regclient/regclient/internal/verif/core"
	"github.com/regclient/regclient/internal/verif/regmodel"
	"github.com/regclient/regclient/internal/verif/simnet"
	"github.com/regclient/regclient/internal/verif/simrt"
	"github.com/regclient/regclient/types/descriptor"
	"github.com/regclient/regclient/types/ref"
)

// C05: a blob upload commits exactly the caller's bytes under their digest, or fails.
func init() {
	core.Register(&core.Prop{ID: "C05", Run: runC05, MaxSteps: 100000})
}

// sliceSource is the caller's stream: reads are sliced by the tape.
type sliceSource struct {
	e    *core.Env
	data []byte
	pos  int
	read int // total bytes handed out (over all passes)
}

func (s *sliceSource) Read(p []byte) (int, error) {
	if len(p) == 0 {
		return 0, nil
	}
	if s.pos >= len(s.data) {
		return 0, io.EOF
	}
	max := len(p)
	switch s.e.Choose("slice", 5, "srcslice") {
	case 1:
		max = 1
	case 2, 3:
		max = 1 + s.e.Choose("slice", len(p), "srclen")
	}
	n := copy(p[:max], s.data[s.pos:])
	s.pos += n
	s.read += n
	if s.pos >= len(s.data) && s.e.Choose("slice", 2, "srceof") == 1 {
		return n, io.EOF
	}
	return n, nil
}

type seekSource struct{ *sliceSource }

func (s seekSource) Seek(off int64, whence int) (int64, error) {
	var np int64
	switch whence {
	case io.SeekStart:
		np = off
	case io.SeekCurrent:
		np = int64(s.pos) + off
	case io.SeekEnd:
		np = int64(len(s.data)) + off
	}
	if np < 0 {
		return 0, fmt.Errorf("negative seek")
	}
	s.pos = int(np)
	return np, nil
}

func runC05(e *core.Env) {
	chunk := []int{4, 7, 16, 32, 64, 100, 256}[e.Choose("gen", 7, "chunk")]
	maxPut := []int{-1, 0, chunk / 2, chunk, chunk * 2, chunk*3 + 1}[e.Choose("gen", 6, "maxput")]
	// length around every boundary
	var n int
	switch e.Choose("gen", 10, "lenclass") {
	case 0:
		n = 0
	case 1:
		n = 1
	case 2:
		n = chunk - 1
	case 3:
		n = chunk
	case 4:
		n = chunk + 1
	case 5:
		n = chunk*(1+e.Choose("gen", 4, "mult")) - 1 + e.Choose("gen", 3, "off")
	case 6:
		if maxPut > 0 {
			n = maxPut - 1 + e.Choose("gen", 3, "off")
		} else {
			n = 2*chunk + 1
		}
	default:
		n = e.Choose("gen", 4*chunk+40, "len")
	}
	if n < 0 {
		n = 0
	}
	data := make([]byte, n)
	x := uint64(e.Choose("gen", 1<<30, "content")) + 7
	for i := range data {
		x ^= x << 13
		x ^= x >> 7
		x ^= x << 17
		data[i] = byte(x)
	}
	alg := "sha256"
	if e.Choose("gen", 5, "alg") == 4 {
		alg = "sha512"
	}
	trueDig := regmodel.Digest(alg, data)
	descKind := []string{"correct", "correct", "absent", "wrong-digest", "wrong-size-small", "wrong-size-large", "size-only-absent-digest"}[e.Choose("gen", 7, "desc")]
	d := descriptor.Descriptor{}
	declared := ""
	switch descKind {
	case "correct":
		d = descriptor.Descriptor{Digest: digest.Digest(trueDig), Size: int64(n)}
	case "wrong-digest":
		declared = regmodel.Digest(alg, append([]byte("not the stream"), data...))
		d = descriptor.Descriptor{Digest: digest.Digest(declared), Size: int64(n)}
	case "wrong-size-small":
		if n == 0 {
			descKind = "correct"
			d = descriptor.Descriptor{Digest: digest.Digest(trueDig), Size: int64(n)}
		} else {
			declared = trueDig
			d = descriptor.Descriptor{Digest: digest.Digest(trueDig), Size: int64(n - 1 - e.Choose("gen", n, "less")%n)}
			if d.Size == int64(n) {
				d.Size = int64(n - 1)
			}
		}
	case "wrong-size-large":
		declared = trueDig
		d = descriptor.Descriptor{Digest: digest.Digest(trueDig), Size: int64(n + 1 + e.Choose("gen", 5, "more"))}
	case "size-only-absent-digest":
		d = descriptor.Descriptor{Size: int64(n)}
	}
	if alg != "sha256" && d.Digest == "" {
		// the algorithm travels in the descriptor; without a digest the client uses the canonical one
		alg = "sha256"
		trueDig = regmodel.Digest(alg, data)
	}
	mismatch := descKind == "wrong-digest" || descKind == "wrong-size-small" || descKind == "wrong-size-large"
	if descKind == "wrong-size-small" && d.Size == 0 {
		// size 0 means "unknown" in a descriptor: not a mismatch
		mismatch = false
	}
	src := &sliceSource{e: e, data: data}
	seekable := e.Choose("gen", 3, "seekable") != 2
	var rdr io.Reader = src
	if seekable {
		rdr = seekSource{src}
	}
	toLayout := e.Choose("gen", 4, "dest") == 3
	faulty := e.Choose("net", 3, "faulty") == 2 && !toLayout
	sample := map[string]any{"len": n, "chunk": chunk, "max_put": maxPut, "alg": alg, "descriptor": descKind, "seekable": seekable}
	ctx := context.Background()
	var dOut descriptor.Descriptor
	var err error
	var stored func(dig string) ([]byte, bool)
	var extraFiles func() []string
	refusedNonSeekable := false
	if toLayout {
		sample["dest"] = "ocidir"
		dir := e.TempDir()
		rc := regclient.New()
		r, rerr := ref.New("ocidir://" + dir)
		if rerr != nil {
			panic(rerr)
		}
		stored = func(dig string) ([]byte, bool) {
			i := strings.IndexByte(dig, ':')
			if i < 0 {
				return nil, false
			}
			b, err := os.ReadFile(filepath.Join(dir, "blobs", dig[:i], dig[i+1:]))
			return b, err == nil
		}
		extraFiles = func() []string {
			var out []string
			_ = filepath.Walk(filepath.Join(dir, "blobs"), func(p string, fi os.FileInfo, err error) error {
				if err == nil && !fi.IsDir() {
					out = append(out, strings.TrimPrefix(p, dir+"/"))
				}
				return nil
			})
			return out
		}
		simrt.Event("BlobPut to layout len=%d desc=%s", n, descKind)
		dOut, err = rc.BlobPut(ctx, r, d, rdr)
	} else {
		sample["dest"] = "reg"
		w := newWorld(e)
		w.Chunk, w.MaxPut = int64(chunk), int64(maxPut)
		g := w.AddReg("tgt.test")
		g.K.Mount = e.Choose("gen", 3, "mount")
		g.K.ChunkMin = []int{0, 0, chunk + 3, 2 * chunk}[e.Choose("gen", 4, "chunkmin")]
		g.K.LocAbsolute = e.Choose("gen", 2, "locabs") == 1
		g.K.LocQuery = e.Choose("gen", 2, "locq") == 1
		g.K.LocChanges = e.Choose("gen", 3, "locchg") == 2
		g.K.LocRelocate = e.Choose("gen", 4, "locreloc") == 3
		// the destination may have a mirror configured (reads go there first; an upload never does)
		if e.Choose("gen", 4, "mirror") == 3 {
			w.AddReg("mirror.test")
			w.Host("tgt.test").Mirrors = []string{"mirror.test"}
			sample["destination_has_a_mirror"] = true
			e.Probe("destination-with-mirror")
		}
		g.K.PartialEvery = []int{0, 0, 1, 2, 3}[e.Choose("gen", 5, "partial")]
		// a destination that takes only a few bytes of every chunk: each request advances the upload, dozens in a row
		g.K.PartialMaxBytes = []int{0, 0, 0, 0, 3, 7}[e.Choose("gen", 6, "partialmax")]
		// a registry may insist on its minimum (not together with partial acceptance, where it is the registry
		// itself that makes chunks short)
		minEnforce := e.Choose("gen", 2, "minenforce") == 1
		// the chunk size and single-request limit may be configured for this host instead of globally
		if e.Choose("gen", 3, "hostcfg") == 2 {
			w.Chunk, w.MaxPut = 0, 0
			w.Host("tgt.test").BlobChunk, w.Host("tgt.test").BlobMax = int64(chunk), int64(maxPut)
			sample["chunk_configured"] = "per host"
			e.Probe("chunk-size-configured-per-host")
		}
		g.K.RefuseMonoPut = e.Choose("gen", 4, "refusemono") == 3
		if e.Choose("gen", 5, "putcut") == 4 {
			// the single PUT is cut by an intermediary after the registry stored part of it
			g.K.PutKeepsThenFails = []int{1, chunk - 1, chunk, chunk + 1, 2 * chunk, 2*chunk + 5, 3*chunk + 1}[e.Choose("gen", 7, "putkeep")]
			if g.K.PutKeepsThenFails < 1 {
				g.K.PutKeepsThenFails = 1
			}
			if !seekable {
				refusedNonSeekable = true // the stream cannot be sent again
			}
		}
		// (also not when the registry side left the session at an odd offset, or with faults: the client then
		// legitimately sends the rest of a chunk it had already cut)
		g.K.ChunkMinEnforce = minEnforce && g.K.ChunkMin > 0 && g.K.PartialEvery == 0 && g.K.PartialMaxBytes == 0 && g.K.PutKeepsThenFails == 0 && !faulty
		sample["server"] = fmt.Sprintf("%+v", g.K)
		// a stream that cannot be rewound cannot be sent twice by any client: when the single
		// request is refused (which the spec does not allow a registry to do) the documented
		// behaviour is an error, and the statement's second sentence does not apply
		refusedNonSeekable = refusedNonSeekable || (g.K.RefuseMonoPut && !seekable)
		if faulty {
			w.Net.Rate = 120
			w.Net.MaxFaults = 3
			w.Net.Enabled = []int{simnet.F500, simnet.F502, simnet.F429, simnet.FConnReset, simnet.FLostResponse, simnet.F504, simnet.F408}
			sample["faults"] = "transient incl. lost responses"
		}
		rc := w.Client()
		r, rerr := ref.New("tgt.test/proj/up")
		if rerr != nil {
			panic(rerr)
		}
		stored = func(dig string) ([]byte, bool) {
			rp := g.Repos["proj/up"]
			if rp == nil {
				return nil, false
			}
			b, ok := rp.Blobs[dig]
			return b, ok
		}
		simrt.Event("BlobPut len=%d chunk=%d maxput=%d desc=%s seekable=%v server=%+v", n, chunk, maxPut, descKind, seekable, g.K)
		dOut, err = rc.BlobPut(ctx, r, d, rdr)
		for k, v := range w.Net.Fired {
			for i := 0; i < v; i++ {
				e.Fault(k)
			}
		}
		patches, puts := 0, 0
		for _, x := range w.Net.Log {
			if x.Method == "PATCH" {
				patches++
			}
			if x.Method == "PUT" {
				puts++
			}
		}
		if patches > 0 {
			e.Probe("chunked-upload")
		}
		if patches > 1 {
			e.Probe("multi-chunk")
		}
		if g.K.PartialEvery > 0 && patches > 1 {
			e.Probe("partial-chunk-accepted")
		}
		if g.K.PartialMaxBytes > 0 && patches > 12 {
			e.Probe("long-run-of-partial-acceptance")
		}
		if puts > 1 {
			e.Probe("fallback-monolithic-to-chunked")
		}
		if g.K.ChunkMin > chunk && patches > 0 {
			e.Probe("min-chunk-raised")
		}
		if g.K.PutKeepsThenFails > 0 && patches > 0 {
			e.Probe("resumed-after-cut-put")
		}
		if g.K.LocRelocate && patches > 1 {
			e.Probe("session-relocated-mid-upload")
		}
	}
	simrt.Event("BlobPut returned %v digest=%s size=%d", err, short(dOut.Digest.String()), dOut.Size)
	e.SetCase(fmt.Sprintf("%v", sample)+trueDig, true, sample)
	e.Probe("desc:" + descKind)
	if err == nil {
		e.Probe("put-ok")
		got, ok := stored(dOut.Digest.String())
		switch {
		case mismatch:
			e.Violation("mismatch-accepted", "mismatch-accepted:"+descKind, "descriptor %s (declared size %d, stream %d bytes) but BlobPut returned success", descKind, d.Size, n)
		case !ok:
			e.Violation("commit", "success-not-stored", "BlobPut returned success with digest %s but the destination does not hold it", short(dOut.Digest.String()))
		case !bytes.Equal(got, data):
			e.Violation("commit", "stored-bytes-differ", "destination holds %d bytes under %s, the stream had %d bytes (first difference at %d)", len(got), short(dOut.Digest.String()), n, firstDiff(got, data))
		case dOut.Digest.String() != trueDig:
			e.Violation("commit", "returned-digest-wrong", "returned digest %s, stream hashes to %s", short(dOut.Digest.String()), short(trueDig))
		case dOut.Size != int64(n):
			e.Violation("commit", "returned-size-wrong", "returned size %d, stream length %d", dOut.Size, n)
		}
	} else {
		e.Probe("put-failed")
		if !mismatch && !faulty && !refusedNonSeekable {
			e.Violation("conforming", "wellformed-upload-failed", "well-formed upload to a conforming fault-free destination failed (len %d chunk %d maxput %d desc %s seekable %v): %v", n, chunk, maxPut, descKind, seekable, err)
		}
	}
	if mismatch && declared != "" && descKind == "wrong-digest" {
		if _, ok := stored(declared); ok {
			e.Violation("mismatch-committed", "committed-under-declared", "content was committed under the declared digest %s although the stream does not hash to it", short(declared))
		}
	}
	if extraFiles != nil {
		// layouts: no final-named file other than the blob appears
		for _, f := range extraFiles() {
			base := filepath.Base(f)
			if strings.HasSuffix(base, ".tmp") || strings.Contains(base, ".tmp") {
				if err == nil {
					e.Violation("layout", "tmp-left-after-success", "temporary file %s left behind after a successful put", f)
				}
				continue
			}
			algDir := filepath.Base(filepath.Dir(f))
			b, rerr := os.ReadFile(filepath.Join(filepath.Dir(filepath.Dir(filepath.Dir(f))), f))
			_ = b
			_ = rerr
			if err != nil || algDir+":"+base != dOut.Digest.String() {
				if err != nil {
					e.Violation("layout", "file-after-failed-put", "final-named file %s exists after a failed put", f)
				} else {
					e.Violation("layout", "unexpected-file", "unexpected final-named file %s", f)
				}
			}
		}
	}
}

func firstDiff(a, b []byte) int {
	for i := 0; i < len(a) && i < len(b); i++ {
		if a[i] != b[i] {
			return i
		}
	}
	if len(a) < len(b) {
		return len(a)
	}
	return len(b)
}
