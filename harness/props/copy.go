package props

import (
	"context"
	"encoding/json"
	"fmt"
	"os"
	"path/filepath"
	"sort"
	"strings"

	"github.com/regclient/regclient"
	"github.com/regclient/regclient/internal/verif/core"
	"github.com/regclient/regclient/internal/verif/gen"
	"github.com/regclient/regclient/internal/verif/oracle"
	"github.com/regclient/regclient/internal/verif/regmodel"
	"github.com/regclient/regclient/internal/verif/simnet"
	"github.com/regclient/regclient/internal/verif/simos"
	"github.com/regclient/regclient/internal/verif/simrt"
	"github.com/regclient/regclient/scheme"
	"github.com/regclient/regclient/types/descriptor"
	"github.com/regclient/regclient/types/ref"
)

// One generated ImageCopy scenario, shared by C03 (complete copy), C04
// (ordering, failure never moves the tag) and C14 (transfers only what the
// target lacks). Endpoints are registry models or OCI layout directories.

type endpoint struct {
	reg  *regmodel.Reg // nil: layout
	repo string
	dir  string
}

func (ep *endpoint) isLayout() bool { return ep.reg == nil }
func (ep *endpoint) store() oracle.Store {
	if ep.isLayout() {
		return oracle.LayoutStore{Dir: ep.dir}
	}
	return oracle.RegStore{Reg: ep.reg, Repo: ep.repo}
}
func (ep *endpoint) refStr(tag string) string {
	if ep.isLayout() {
		return "ocidir://" + ep.dir + ":" + tag
	}
	return ep.reg.Name + "/" + ep.repo + ":" + tag
}
func (ep *endpoint) install(gr *gen.Graph, tag string, plain bool) {
	if ep.isLayout() {
		if err := gr.InstallLayout(ep.dir, tag, plain); err != nil {
			panic(err)
		}
		return
	}
	if plain {
		gr.InstallPlain(ep.reg, ep.repo, tag)
	} else {
		gr.Install(ep.reg, ep.repo, tag)
	}
}
func (ep *endpoint) putBlob(d string, data []byte) {
	if ep.isLayout() {
		if err := gen.LayoutFile(ep.dir, d, data); err != nil {
			panic(err)
		}
		_ = gen.LayoutSetTags(ep.dir, nil)
		return
	}
	ep.reg.Repo(ep.repo).Blobs[d] = data
}
func (ep *endpoint) putManifest(n *gen.Node) {
	if ep.isLayout() {
		if err := gen.LayoutFile(ep.dir, n.Digest, n.Raw); err != nil {
			panic(err)
		}
		_ = gen.LayoutSetTags(ep.dir, nil)
		return
	}
	ep.reg.Repo(ep.repo).Manifests[n.Digest] = &regmodel.Manifest{MediaType: n.MediaType, Raw: n.Raw}
}

// wev is a write that reached the target, from the registry journal or the disk seam.
type wev struct {
	Seq    int    // request number (registry) or mutating-call number (layout)
	Kind   string // blob, manifest, tag, mount, del-*, other
	Digest string
	Tag    string
}

type copyCase struct {
	w        *World
	gr       *gen.Graph
	srcEP    *endpoint
	tgtEP    *endpoint
	src, tgt *regmodel.Reg // nil for layouts
	srcRepo  string
	tgtRepo  string
	tag      string
	tgtTag   string
	pairing  string
	preState string
	optNames []string
	opts     []regclient.ImageOpts
	wo       oracle.WalkOpts
	force    bool
	// snapshot of the target before the copy
	preMan      map[string]bool
	preBlob     map[string]bool
	preTags     map[string]string
	ext         *extHost
	defaultOpts bool
	includeExt  bool
	refTgtRepo  string // ImageWithReferrerTgt: referrers (with their own content) go to this repository of the target registry
	disk        *simos.Disk
	// observation of target writes (set up by watch)
	writes     []wev
	onManifest func(seq int, dig string, raw []byte)
}

// extHost serves external layer URLs.
type extHost struct {
	data map[string][]byte
	gets map[string]int
}

func (x *extHost) Serve(req *simnet.Request) *simnet.Response {
	d := strings.TrimPrefix(req.Path, "/ext/")
	b, ok := x.data[d]
	if !ok {
		r := simnet.NewResponse(404)
		return r
	}
	if req.Method == "GET" {
		x.gets[d]++
	}
	return regmodel.ServeBytes(req, b, "")
}

type copyGenOpts struct {
	defaultOptsOnly bool // C14: default options
	noLayouts       bool
}

func genCopyCase(e *core.Env, o copyGenOpts) *copyCase {
	w := newWorld(e)
	c := &copyCase{w: w, tag: "v1", tgtTag: "v1"}
	g := gen.New(e.Tape)
	if e.Choose("gen", 8, "alg") == 7 {
		g.Alg = "sha512"
	}
	// topology
	np := 7
	if o.noLayouts {
		np = 4
	}
	pair := e.Choose("gen", np, "pairing")
	if pair >= 5 {
		// a layout source has no way to serve a layer it does not host (no URL fall-back in ocidir):
		// images with external layers are only generated for registry sources
		g.NoExt = true
	}
	c.gr = g.Graph(gen.Opts{Loops: true})
	switch pair {
	case 0:
		c.pairing = "two-registries"
		c.src, c.tgt = w.AddReg("src.test"), w.AddReg("tgt.test")
		c.srcRepo, c.tgtRepo = "proj/app", "mirror/app"
	case 1, 2:
		c.pairing = "same-registry"
		c.src = w.AddReg("reg.test")
		c.tgt = c.src
		c.srcRepo, c.tgtRepo = "proj/app", "copy/app"
	case 3:
		c.pairing = "same-repository"
		c.src = w.AddReg("reg.test")
		c.tgt = c.src
		c.srcRepo, c.tgtRepo = "proj/app", "proj/app"
		c.tgtTag = "v2"
	case 4:
		c.pairing = "registry-to-layout"
		c.src = w.AddReg("src.test")
		c.srcRepo = "proj/app"
	case 5:
		c.pairing = "layout-to-registry"
		c.tgt = w.AddReg("tgt.test")
		c.tgtRepo = "mirror/app"
	case 6:
		c.pairing = "layout-to-layout"
	}
	if c.src != nil {
		c.srcEP = &endpoint{reg: c.src, repo: c.srcRepo}
	} else {
		c.srcEP = &endpoint{dir: e.TempDir()}
	}
	if c.tgt != nil {
		c.tgtEP = &endpoint{reg: c.tgt, repo: c.tgtRepo}
	} else {
		c.tgtEP = &endpoint{dir: e.TempDir()}
	}
	// registry features
	seenReg := map[*regmodel.Reg]bool{}
	for _, r := range []*regmodel.Reg{c.src, c.tgt} {
		if r == nil || seenReg[r] {
			continue
		}
		seenReg[r] = true
		r.K.Referrers = e.Choose("gen", 2, "refapi") == 0
		r.K.Mount = e.Choose("gen", 3, "mount")
		r.K.MountNoLocation = e.Choose("gen", 5, "mountnoloc") == 4
		r.K.NoHeadDigest = e.Choose("gen", 4, "noheaddigest") == 3
		r.K.TagPage = []int{0, 1, 2}[e.Choose("gen", 3, "tagpage")]
		r.K.ReferrersPage = []int{0, 1}[e.Choose("gen", 2, "refpage")]
		r.K.LocAbsolute = e.Choose("gen", 2, "locabs") == 1
		r.K.LocQuery = e.Choose("gen", 2, "locq") == 1
		r.K.ChunkMin = []int{0, 0, 48}[e.Choose("gen", 3, "chunkmin")]
		if g.Alg != "sha256" {
			// a registry that stores non-canonical digests announces them; without the
			// header a tag reference carries no algorithm and the client falls back to sha256
			r.K.NoHeadDigest = false
		}
	}
	c.srcEP.install(c.gr, c.tag, false)
	// external layers are served by a third host
	c.ext = &extHost{data: map[string][]byte{}, gets: map[string]int{}}
	for _, n := range c.gr.AllNodes() {
		for _, b := range n.Blobs {
			if b.External {
				c.ext.data[b.Desc.Digest] = b.Data
			}
		}
	}
	w.Net.Hosts["ext.test"] = c.ext
	// options
	if !o.defaultOptsOnly {
		if e.Choose("gen", 3, "optForce") == 1 {
			c.force = true
			c.opts = append(c.opts, regclient.ImageWithForceRecursive())
			c.optNames = append(c.optNames, "force-recursive")
		}
		if e.Choose("gen", 2, "optReferrers") == 1 {
			c.wo.Referrers = true
			if rf := e.Choose("gen", 5, "optRefFilter"); rf == 1 {
				c.wo.ReferrerTypes = []string{"application/vnd.example.sbom"}
				c.opts = append(c.opts, regclient.ImageWithReferrers(scheme.WithReferrerMatchOpt(descMatch("application/vnd.example.sbom"))))
				c.optNames = append(c.optNames, "referrers(sbom)")
			} else if rf == 2 {
				// two filters: what either of them selects is copied (a regsync referrerFilters list with two entries)
				c.wo.ReferrerTypes = []string{"application/vnd.example.sbom", "application/vnd.example.sig"}
				c.opts = append(c.opts, regclient.ImageWithReferrers(scheme.WithReferrerMatchOpt(descMatch("application/vnd.example.sbom"))),
					regclient.ImageWithReferrers(scheme.WithReferrerMatchOpt(descMatch("application/vnd.example.sig"))))
				c.optNames = append(c.optNames, "referrers(sbom)+referrers(sig)")
			} else {
				c.opts = append(c.opts, regclient.ImageWithReferrers())
				c.optNames = append(c.optNames, "referrers")
			}
			// referrers kept in a repository of their own at the target (one copy then writes into two repositories)
			if c.tgt != nil && c.pairing != "same-repository" && e.Choose("gen", 4, "optReferrerTgt") == 3 {
				c.refTgtRepo = c.tgtRepo + "-referrers"
				c.opts = append(c.opts, regclient.ImageWithReferrerTgt(mustRef(c.tgt.Name+"/"+c.refTgtRepo)))
				c.optNames = append(c.optNames, "referrer-tgt")
			}
		}
		if e.Choose("gen", 3, "optDigestTags") == 1 {
			c.wo.DigestTags = true
			c.opts = append(c.opts, regclient.ImageWithDigestTags())
			c.optNames = append(c.optNames, "digest-tags")
		}
		if e.Choose("gen", 4, "optExternal") == 1 {
			// the statement guarantees "layers hosted by the source"; external layers are
			// exercised (the option is in the quantifier) but never required by the oracle
			c.includeExt = true
			c.opts = append(c.opts, regclient.ImageWithIncludeExternal())
			c.optNames = append(c.optNames, "include-external")
		}
	}
	c.defaultOpts = len(c.opts) == 0
	// pre-existing target state
	if c.pairing != "same-repository" {
		switch e.Choose("gen", 6, "prestate") {
		case 5:
			// the image was copied earlier without referrers / digest-tags
			c.preState = "complete-plain"
			c.tgtEP.install(c.gr, c.tgtTag, true)
		case 0:
			c.preState = "empty"
		case 1, 2:
			c.preState = "partial"
			for _, n := range c.gr.AllNodes() {
				for _, b := range append(append([]*gen.Blob{}, n.Blobs...), n.BlobKids...) {
					if b.Hosted && !b.External && e.Choose("gen", 3, "preblob") == 1 {
						c.tgtEP.putBlob(b.Desc.Digest, b.Data)
					}
				}
				if n != c.gr.Root && e.Choose("gen", 4, "preman") == 1 {
					c.tgtEP.putManifest(n)
				}
			}
		case 3:
			c.preState = "stale-tag"
			other := gen.New(e.Tape)
			other.MaxBlob = 50
			other.NoExt = true
			og := other.Graph(gen.Opts{NoReferrers: true, NoDigestTags: true})
			c.tgtEP.install(og, c.tgtTag, false)
		case 4:
			c.preState = "complete"
			c.tgtEP.install(c.gr, c.tgtTag, false)
		}
	} else {
		c.preState = "source"
		if e.Choose("gen", 3, "retagstale") == 1 {
			c.preState = "source+stale-tag"
			other := gen.New(e.Tape)
			other.MaxBlob = 50
			og := other.Graph(gen.Opts{NoReferrers: true, NoDigestTags: true})
			c.tgtEP.install(og, c.tgtTag, false)
		}
	}
	c.snapshot()
	if c.tgtEP.isLayout() || c.srcEP.isLayout() {
		root := c.tgtEP.dir
		if root == "" {
			root = c.srcEP.dir
		}
		c.disk = &simos.Disk{Root: root}
		simos.Use(c.disk)
	}
	return c
}

// done must be deferred by every harness using a copy case.
func (c *copyCase) done() {
	if c.disk != nil {
		simos.Use(nil)
	}
}

func looksLikeManifest(b []byte) bool {
	if len(b) == 0 || b[0] != '{' {
		return false
	}
	var p struct {
		SchemaVersion int    `json:"schemaVersion"`
		MediaType     string `json:"mediaType"`
	}
	if json.Unmarshal(b, &p) != nil {
		return false
	}
	// (the OCI artifact manifest carries no schemaVersion)
	return (p.SchemaVersion > 0 && (strings.Contains(p.MediaType, "manifest") || strings.Contains(p.MediaType, "index") || p.MediaType == "")) || p.MediaType == gen.MTOCIArtifact
}

func (c *copyCase) snapshot() {
	c.preMan, c.preBlob, c.preTags = map[string]bool{}, map[string]bool{}, map[string]string{}
	if c.tgtEP.isLayout() {
		for _, alg := range []string{"sha256", "sha512"} {
			ents, _ := os.ReadDir(filepath.Join(c.tgtEP.dir, "blobs", alg))
			for _, en := range ents {
				d := alg + ":" + en.Name()
				c.preBlob[d] = true
				if b, err := os.ReadFile(filepath.Join(c.tgtEP.dir, "blobs", alg, en.Name())); err == nil && looksLikeManifest(b) {
					c.preMan[d] = true
				}
			}
		}
		c.preTags = oracle.TagSnapshot(c.tgtEP.dir)
		return
	}
	if rp := c.tgt.Repos[c.tgtRepo]; rp != nil {
		for d := range rp.Manifests {
			c.preMan[d] = true
		}
		for d := range rp.Blobs {
			c.preBlob[d] = true
		}
		for t, d := range rp.Tags {
			c.preTags[t] = d
		}
	}
}

// watch starts recording the writes that reach the target.
func (c *copyCase) watch() {
	if !c.tgtEP.isLayout() {
		j0 := len(c.tgt.Journal)
		_ = j0
		c.tgt.OnWrite = func(w regmodel.Write) {
			if w.Repo == c.tgtRepo {
				c.writes = append(c.writes, wev{Seq: w.Seq, Kind: w.Kind, Digest: w.Digest, Tag: w.Tag})
			}
		}
		c.tgt.OnManifestPut = func(seq int, repo, ref, dig string, raw []byte) {
			if repo == c.tgtRepo && c.onManifest != nil {
				c.onManifest(seq, dig, raw)
			}
		}
		return
	}
	dir := c.tgtEP.dir
	lastTags := oracle.TagSnapshot(dir)
	c.disk.OnMutation = func(en simos.Entry) {
		p := en.Abs
		if en.Op == "rename" {
			p = en.Abs2
		}
		if !strings.HasPrefix(p, dir+"/") {
			return
		}
		rel := strings.TrimPrefix(p, dir+"/")
		switch {
		case en.Op == "rename" && strings.HasPrefix(rel, "blobs/"):
			parts := strings.Split(rel, "/")
			if len(parts) != 3 {
				return
			}
			d := parts[1] + ":" + parts[2]
			b, _ := os.ReadFile(p)
			if looksLikeManifest(b) {
				if c.onManifest != nil {
					c.onManifest(en.Mut, d, b)
				}
				c.writes = append(c.writes, wev{Seq: en.Mut, Kind: "manifest", Digest: d})
			} else {
				c.writes = append(c.writes, wev{Seq: en.Mut, Kind: "blob", Digest: d})
			}
		case en.Op == "rename" && rel == "index.json":
			now := oracle.TagSnapshot(dir)
			var ts []string
			for t := range now {
				ts = append(ts, t)
			}
			sort.Strings(ts)
			for _, t := range ts {
				if lastTags[t] != now[t] {
					c.writes = append(c.writes, wev{Seq: en.Mut, Kind: "tag", Digest: now[t], Tag: t})
				}
			}
			for t, d := range lastTags {
				if _, ok := now[t]; !ok {
					c.writes = append(c.writes, wev{Seq: en.Mut, Kind: "del-tag", Digest: d, Tag: t})
				}
			}
			lastTags = now
		case en.Op == "remove" && strings.HasPrefix(rel, "blobs/"):
			c.writes = append(c.writes, wev{Seq: en.Mut, Kind: "del-file", Digest: rel})
		}
	}
}

func (c *copyCase) refs() (ref.Ref, ref.Ref) {
	return mustRef(c.srcEP.refStr(c.tag)), mustRef(c.tgtEP.refStr(c.tgtTag))
}

func feat(r *regmodel.Reg) string {
	if r == nil {
		return "layout"
	}
	return fmt.Sprintf("%+v", r.K)
}

func (c *copyCase) describe() map[string]any {
	return map[string]any{"pairing": c.pairing, "pre_state": c.preState, "options": c.optNames, "image": c.gr.Describe(),
		"src_features": feat(c.src), "tgt_features": feat(c.tgt),
		"client": fmt.Sprintf("chunk=%d maxput=%d retry=%d concurrent=%d cache=%v", c.w.Chunk, c.w.MaxPut, c.w.RetryLimit, c.w.Concurrent, c.w.Cache)}
}

func (c *copyCase) key() string {
	return fmt.Sprintf("%s|%s|%v|%s|%s|%s|%s", c.pairing, c.preState, c.optNames, c.gr.Root.Digest, c.gr.Shape, feat(c.src), feat(c.tgt))
}

// trusted implements the statement's "a target manifest that already equals
// the source is trusted to be complete unless a recursive copy is requested".
func (c *copyCase) trusted(d string, root bool) bool {
	if c.force {
		return false
	}
	if root {
		return c.preTags[c.tgtTag] == d
	}
	return c.preMan[d]
}

// checkComplete is the C03 oracle; it is evaluated only after a nil return.
func (c *copyCase) checkComplete(e *core.Env) {
	srcS := c.srcEP.store()
	tgtS := c.tgtEP.store()
	got, ok := tgtS.Tag(c.tgtTag)
	if !ok || got != c.gr.Root.Digest {
		e.Violation("tag", "target-tag-wrong", "copy returned nil but %s:%s resolves to %q, source digest %s", tgtS.Name(), c.tgtTag, got, c.gr.Root.Digest)
		return
	}
	wo := c.wo
	wo.Trusted = c.trusted
	needs, tags, bad := oracle.Closure(srcS, c.gr.Root.Digest, wo)
	if len(bad) > 0 {
		e.Infra("generator produced an incomplete source: %v", bad)
		return
	}
	if c.refTgtRepo != "" {
		c.checkCompleteSplit(e, srcS, tgtS, wo, needs, tags)
		return
	}
	// external layers copied with include-external come from the external host
	miss := oracle.CheckPresent(extAware{srcS, c.ext}, tgtS, needs)
	if len(miss) > 0 {
		sort.Strings(miss)
		e.Violation("complete", "missing-"+classify(miss[0]), "copy returned nil (%s, %s, opts %v) but: %s", c.pairing, c.preState, c.optNames, strings.Join(miss, "; "))
	}
	// a copied referrer is present *as a referrer*: the target lists it for its subject
	// (through its API, or through the fallback tag the client maintains)
	for _, n := range needs {
		if n.ReferrerOf == "" {
			continue
		}
		if _, _, ok := tgtS.Manifest(n.Digest); !ok {
			continue // already reported as missing
		}
		if c.preMan[n.Digest] && !c.force {
			continue // it was at the target before the copy: trusted, not re-pushed
		}
		listed := false
		for _, d := range tgtS.ReferrersOf(n.ReferrerOf) {
			if d == n.Digest {
				listed = true
			}
		}
		if !listed {
			e.Violation("complete", "referrer-not-listed", "copy returned nil and referrer %s of %s is stored at the target, but the target does not list it among the referrers of its subject", short(n.Digest), short(n.ReferrerOf))
		}
	}
	for t, d := range tags {
		if got, _ := tgtS.Tag(t); got != d {
			e.Violation("complete", "digest-tag-missing", "digest-tag %s resolves to %q at the target, %s at the source", t, got, d)
		}
	}
	e.ProbeN("closure-items", len(needs))
}

// checkCompleteSplit is the C03 oracle when the referrers go to a repository of their own: the image (and its
// digest-tags) is complete in the target repository, every referrer - of the image, of its children, of other
// referrers - is complete in the referrers repository and listed there for its subject.
func (c *copyCase) checkCompleteSplit(e *core.Env, srcS, tgtS oracle.Store, wo oracle.WalkOpts, needsAll []oracle.Need, tags map[string]string) {
	woMain := wo
	woMain.Referrers = false
	mainNeeds, _, _ := oracle.Closure(srcS, c.gr.Root.Digest, woMain)
	if miss := oracle.CheckPresent(extAware{srcS, c.ext}, tgtS, mainNeeds); len(miss) > 0 {
		sort.Strings(miss)
		e.Violation("complete", "missing-"+classify(miss[0]), "copy returned nil (%s, %s, opts %v) but in the target repository: %s", c.pairing, c.preState, c.optNames, strings.Join(miss, "; "))
	}
	refS := oracle.RegStore{Reg: c.tgt, Repo: c.refTgtRepo}
	nrefs := 0
	for _, n := range needsAll {
		if n.ReferrerOf == "" {
			continue
		}
		nrefs++
		sub, _, _ := oracle.Closure(srcS, n.Digest, oracle.WalkOpts{IncludeExternal: wo.IncludeExternal})
		if miss := oracle.CheckPresent(extAware{srcS, c.ext}, refS, sub); len(miss) > 0 {
			sort.Strings(miss)
			e.Violation("complete", "missing-in-referrer-repository", "copy returned nil (%s, %s, opts %v) but referrer %s of %s is incomplete in the referrers repository: %s", c.pairing, c.preState, c.optNames, short(n.Digest), short(n.ReferrerOf), strings.Join(miss, "; "))
			continue
		}
		listed := false
		for _, d := range refS.ReferrersOf(n.ReferrerOf) {
			if d == n.Digest {
				listed = true
			}
		}
		if !listed {
			e.Violation("complete", "referrer-not-listed", "copy returned nil and referrer %s of %s is stored in the referrers repository, which does not list it among the referrers of its subject", short(n.Digest), short(n.ReferrerOf))
		}
	}
	for t, d := range tags {
		if got, _ := tgtS.Tag(t); got != d {
			e.Violation("complete", "digest-tag-missing", "digest-tag %s resolves to %q at the target, %s at the source", t, got, d)
		}
	}
	if nrefs > 0 {
		e.Probe("referrers-to-their-own-repository")
	}
	e.ProbeN("closure-items", len(needsAll))
}

func classify(s string) string {
	switch {
	case strings.HasPrefix(s, "manifest") && strings.Contains(s, "referrer"):
		return "referrer"
	case strings.HasPrefix(s, "manifest") && strings.Contains(s, "digest-tag"):
		return "digest-tag-manifest"
	case strings.HasPrefix(s, "manifest"):
		return "manifest"
	case strings.Contains(s, "differs"):
		return "blob-differs"
	}
	return "blob"
}

type extAware struct {
	oracle.Store
	ext *extHost
}

func (x extAware) Blob(d string) ([]byte, bool) {
	if b, ok := x.Store.Blob(d); ok {
		return b, ok
	}
	b, ok := x.ext.data[d]
	return b, ok
}

func descMatch(artType string) descriptor.MatchOpt {
	return descriptor.MatchOpt{ArtifactType: artType}
}

// ---------------------------------------------------------------- C03

func init() {
	core.Register(&core.Prop{ID: "C03", Run: runC03, MaxSteps: 300000})
}

func runC03(e *core.Env) {
	c := genCopyCase(e, copyGenOpts{})
	defer c.done()
	// C03 quantifies over inputs, configurations and schedules, not faults: the network is fault-free here
	// (transient faults during a copy are C12's business, fault positions C04's)
	rc := c.w.Client()
	s, t := c.refs()
	e.SetCase(c.key(), true, c.describe())
	simrt.Event("ImageCopy %s -> %s opts=%v pre=%s", c.pairing, c.tgtTag, c.optNames, c.preState)
	err := rc.ImageCopy(context.Background(), s, t, c.opts...)
	simrt.Event("ImageCopy returned %v", err)
	drainTasks(e, 20)
	e.Probe("pairing:" + c.pairing)
	e.Probe("pre:" + c.preState)
	e.Probe("shape:" + c.gr.Shape)
	for _, o := range c.optNames {
		e.Probe("opt:" + o)
	}
	if err != nil {
		// the property is conditional on success, but a fault-free copy of a
		// well-formed image that fails would make the check vacuous
		e.Violation("vacuity", "faultfree-copy-failed", "fault-free copy failed (%s, %s, %v): %v", c.pairing, c.preState, c.optNames, err)
		return
	}
	e.Probe("copy-ok")
	c.checkComplete(e)
}
