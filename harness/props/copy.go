package props

import (
	"context"
	"fmt"
	"sort"
	"strings"
	"time"

	"github.com/regclient/regclient"
	"github.com/regclient/regclient/internal/verif/core"
	"github.com/regclient/regclient/internal/verif/gen"
	"github.com/regclient/regclient/internal/verif/oracle"
	"github.com/regclient/regclient/internal/verif/regmodel"
	"github.com/regclient/regclient/internal/verif/simnet"
	"github.com/regclient/regclient/internal/verif/simrt"
	"github.com/regclient/regclient/scheme"
	"github.com/regclient/regclient/types/descriptor"
	"github.com/regclient/regclient/types/ref"
)

// One generated ImageCopy scenario over registry models, shared by C03
// (complete copy), C04 (ordering, failure never moves the tag) and C14
// (transfers only what the target lacks).

type copyCase struct {
	w        *World
	gr       *gen.Graph
	src, tgt *regmodel.Reg
	srcRepo  string
	tgtRepo  string
	tag      string
	tgtTag   string
	pairing  string
	preState string
	optNames []string
	opts     []regclient.ImageOpts
	wo       oracle.WalkOpts
	force    bool
	// snapshot of the target before the copy
	preMan  map[string]bool
	preBlob map[string]bool
	preTags map[string]string
	ext     *extHost
	defaultOpts bool
	includeExt  bool
}

// extHost serves external layer URLs.
type extHost struct {
	data map[string][]byte
	gets map[string]int
}

func (x *extHost) Serve(req *simnet.Request) *simnet.Response {
	d := strings.TrimPrefix(req.Path, "/ext/")
	b, ok := x.data[d]
	if !ok {
		r := simnet.NewResponse(404)
		return r
	}
	if req.Method == "GET" {
		x.gets[d]++
	}
	return regmodel.ServeBytes(req, b, "")
}

type copyGenOpts struct {
	defaultOptsOnly bool // C14: default options
	regKnobs        bool
}

func genCopyCase(e *core.Env, o copyGenOpts) *copyCase {
	w := newWorld(e)
	c := &copyCase{w: w, tag: "v1", tgtTag: "v1"}
	g := gen.New(e.Tape)
	if e.Choose("gen", 8, "alg") == 7 {
		g.Alg = "sha512"
	}
	c.gr = g.Graph(gen.Opts{})
	// topology
	switch e.Choose("gen", 4, "pairing") {
	case 0:
		c.pairing = "two-registries"
		c.src, c.tgt = w.AddReg("src.test"), w.AddReg("tgt.test")
		c.srcRepo, c.tgtRepo = "proj/app", "mirror/app"
	case 1, 2:
		c.pairing = "same-registry"
		c.src = w.AddReg("reg.test")
		c.tgt = c.src
		c.srcRepo, c.tgtRepo = "proj/app", "copy/app"
	case 3:
		c.pairing = "same-repository"
		c.src = w.AddReg("reg.test")
		c.tgt = c.src
		c.srcRepo, c.tgtRepo = "proj/app", "proj/app"
		c.tgtTag = "v2"
	}
	// registry features
	for _, r := range []*regmodel.Reg{c.src, c.tgt} {
		r.K.Referrers = e.Choose("gen", 2, "refapi") == 0
		r.K.Mount = e.Choose("gen", 3, "mount")
		r.K.NoHeadDigest = e.Choose("gen", 4, "noheaddigest") == 3
		r.K.TagPage = []int{0, 1, 2}[e.Choose("gen", 3, "tagpage")]
		r.K.ReferrersPage = []int{0, 1}[e.Choose("gen", 2, "refpage")]
		r.K.LocAbsolute = e.Choose("gen", 2, "locabs") == 1
		r.K.LocQuery = e.Choose("gen", 2, "locq") == 1
		r.K.ChunkMin = []int{0, 0, 48}[e.Choose("gen", 3, "chunkmin")]
		if g.Alg != "sha256" {
			// a registry that stores non-canonical digests announces them; without the
			// header a tag reference carries no algorithm and the client falls back to sha256
			r.K.NoHeadDigest = false
		}
	}
	c.gr.Install(c.src, c.srcRepo, c.tag)
	// external layers are served by a third host
	c.ext = &extHost{data: map[string][]byte{}, gets: map[string]int{}}
	for _, n := range c.gr.AllNodes() {
		for _, b := range n.Blobs {
			if b.External {
				c.ext.data[b.Desc.Digest] = b.Data
			}
		}
	}
	w.Net.Hosts["ext.test"] = c.ext
	// options
	if !o.defaultOptsOnly {
		if e.Choose("gen", 3, "optForce") == 1 {
			c.force = true
			c.opts = append(c.opts, regclient.ImageWithForceRecursive())
			c.optNames = append(c.optNames, "force-recursive")
		}
		if e.Choose("gen", 2, "optReferrers") == 1 {
			c.wo.Referrers = true
			if e.Choose("gen", 4, "optRefFilter") == 1 {
				c.wo.ReferrerTypes = []string{"application/vnd.example.sbom"}
				c.opts = append(c.opts, regclient.ImageWithReferrers(scheme.WithReferrerMatchOpt(descMatch("application/vnd.example.sbom"))))
				c.optNames = append(c.optNames, "referrers(sbom)")
			} else {
				c.opts = append(c.opts, regclient.ImageWithReferrers())
				c.optNames = append(c.optNames, "referrers")
			}
		}
		if e.Choose("gen", 3, "optDigestTags") == 1 {
			c.wo.DigestTags = true
			c.opts = append(c.opts, regclient.ImageWithDigestTags())
			c.optNames = append(c.optNames, "digest-tags")
		}
		if e.Choose("gen", 4, "optExternal") == 1 {
			// the statement guarantees "layers hosted by the source"; external layers are
			// exercised (the option is in the quantifier) but never required by the oracle
			c.includeExt = true
			c.opts = append(c.opts, regclient.ImageWithIncludeExternal())
			c.optNames = append(c.optNames, "include-external")
		}
	}
	c.defaultOpts = len(c.opts) == 0
	// pre-existing target state
	if c.pairing != "same-repository" {
		switch e.Choose("gen", 6, "prestate") {
		case 5:
			// the image was copied earlier without referrers / digest-tags
			c.preState = "complete-plain"
			c.gr.InstallPlain(c.tgt, c.tgtRepo, c.tgtTag)
		case 0:
			c.preState = "empty"
		case 1, 2:
			c.preState = "partial"
			rp := c.tgt.Repo(c.tgtRepo)
			for _, n := range c.gr.AllNodes() {
				for _, b := range append(append([]*gen.Blob{}, n.Blobs...), n.BlobKids...) {
					if b.Hosted && !b.External && e.Choose("gen", 3, "preblob") == 1 {
						rp.Blobs[b.Desc.Digest] = b.Data
					}
				}
				if n != c.gr.Root && e.Choose("gen", 4, "preman") == 1 {
					rp.Manifests[n.Digest] = &regmodel.Manifest{MediaType: n.MediaType, Raw: n.Raw}
				}
			}
		case 3:
			c.preState = "stale-tag"
			other := gen.New(e.Tape)
			other.MaxBlob = 50
			og := other.Graph(gen.Opts{NoReferrers: true, NoDigestTags: true})
			og.Install(c.tgt, c.tgtRepo, c.tgtTag)
		case 4:
			c.preState = "complete"
			c.gr.Install(c.tgt, c.tgtRepo, c.tgtTag)
		}
	} else {
		c.preState = "source"
		if e.Choose("gen", 3, "retagstale") == 1 {
			c.preState = "source+stale-tag"
			other := gen.New(e.Tape)
			other.MaxBlob = 50
			og := other.Graph(gen.Opts{NoReferrers: true, NoDigestTags: true})
			og.Install(c.tgt, c.tgtRepo, c.tgtTag)
		}
	}
	c.snapshot()
	return c
}

func (c *copyCase) snapshot() {
	c.preMan, c.preBlob, c.preTags = map[string]bool{}, map[string]bool{}, map[string]string{}
	if rp := c.tgt.Repos[c.tgtRepo]; rp != nil {
		for d := range rp.Manifests {
			c.preMan[d] = true
		}
		for d := range rp.Blobs {
			c.preBlob[d] = true
		}
		for t, d := range rp.Tags {
			c.preTags[t] = d
		}
	}
}

func (c *copyCase) refs() (ref.Ref, ref.Ref) {
	s, err := ref.New(c.src.Name + "/" + c.srcRepo + ":" + c.tag)
	if err != nil {
		panic(err)
	}
	t, err := ref.New(c.tgt.Name + "/" + c.tgtRepo + ":" + c.tgtTag)
	if err != nil {
		panic(err)
	}
	return s, t
}

func (c *copyCase) describe() map[string]any {
	return map[string]any{"pairing": c.pairing, "pre_state": c.preState, "options": c.optNames, "image": c.gr.Describe(),
		"src_features": fmt.Sprintf("%+v", c.src.K), "tgt_features": fmt.Sprintf("%+v", c.tgt.K),
		"client": fmt.Sprintf("chunk=%d maxput=%d retry=%d concurrent=%d cache=%v", c.w.Chunk, c.w.MaxPut, c.w.RetryLimit, c.w.Concurrent, c.w.Cache)}
}

func (c *copyCase) key() string {
	return fmt.Sprintf("%s|%s|%v|%s|%s|%+v|%+v", c.pairing, c.preState, c.optNames, c.gr.Root.Digest, c.gr.Shape, c.src.K, c.tgt.K)
}

// trusted implements the statement's "a target manifest that already equals
// the source is trusted to be complete unless a recursive copy is requested".
func (c *copyCase) trusted(d string, root bool) bool {
	if c.force {
		return false
	}
	if root {
		return c.preTags[c.tgtTag] == d
	}
	return c.preMan[d]
}

// checkComplete is the C03 oracle; it is evaluated only after a nil return.
func (c *copyCase) checkComplete(e *core.Env) {
	srcS := oracle.RegStore{Reg: c.src, Repo: c.srcRepo}
	tgtS := oracle.RegStore{Reg: c.tgt, Repo: c.tgtRepo}
	got, ok := tgtS.Tag(c.tgtTag)
	if !ok || got != c.gr.Root.Digest {
		e.Violation("tag", "target-tag-wrong", "copy returned nil but %s:%s resolves to %q, source digest %s", tgtS.Name(), c.tgtTag, got, c.gr.Root.Digest)
		return
	}
	wo := c.wo
	wo.Trusted = c.trusted
	needs, tags, bad := oracle.Closure(srcS, c.gr.Root.Digest, wo)
	if len(bad) > 0 {
		e.Infra("generator produced an incomplete source: %v", bad)
		return
	}
	// external layers copied with include-external come from the external host
	miss := oracle.CheckPresent(extAware{srcS, c.ext}, tgtS, needs)
	if len(miss) > 0 {
		sort.Strings(miss)
		e.Violation("complete", "missing-"+classify(miss[0]), "copy returned nil (%s, %s, opts %v) but: %s", c.pairing, c.preState, c.optNames, strings.Join(miss, "; "))
	}
	// a copied referrer is present *as a referrer*: the target lists it for its subject
	// (through its API, or through the fallback tag the client maintains)
	for _, n := range needs {
		if n.ReferrerOf == "" {
			continue
		}
		if _, _, ok := tgtS.Manifest(n.Digest); !ok {
			continue // already reported as missing
		}
		if c.preMan[n.Digest] && !c.force {
			continue // it was at the target before the copy: trusted, not re-pushed
		}
		listed := false
		for _, d := range tgtS.ReferrersOf(n.ReferrerOf) {
			if d == n.Digest {
				listed = true
			}
		}
		if !listed {
			e.Violation("complete", "referrer-not-listed", "copy returned nil and referrer %s of %s is stored at the target, but the target does not list it among the referrers of its subject", short(n.Digest), short(n.ReferrerOf))
		}
	}
	for t, d := range tags {
		if got, _ := tgtS.Tag(t); got != d {
			e.Violation("complete", "digest-tag-missing", "digest-tag %s resolves to %q at the target, %s at the source", t, got, d)
		}
	}
	e.ProbeN("closure-items", len(needs))
}

func classify(s string) string {
	switch {
	case strings.HasPrefix(s, "manifest") && strings.Contains(s, "referrer"):
		return "referrer"
	case strings.HasPrefix(s, "manifest") && strings.Contains(s, "digest-tag"):
		return "digest-tag-manifest"
	case strings.HasPrefix(s, "manifest"):
		return "manifest"
	case strings.Contains(s, "differs"):
		return "blob-differs"
	}
	return "blob"
}

type extAware struct {
	oracle.RegStore
	ext *extHost
}

func (x extAware) Blob(d string) ([]byte, bool) {
	if b, ok := x.RegStore.Blob(d); ok {
		return b, ok
	}
	b, ok := x.ext.data[d]
	return b, ok
}

func descMatch(artType string) descriptor.MatchOpt {
	return descriptor.MatchOpt{ArtifactType: artType}
}

// ---------------------------------------------------------------- C03

func init() {
	core.Register(&core.Prop{ID: "C03", Run: runC03, MaxSteps: 300000})
}

func runC03(e *core.Env) {
	c := genCopyCase(e, copyGenOpts{})
	// C03 quantifies over inputs, configurations and schedules, not faults: the network is fault-free here
	// (transient faults during a copy are C12's business, fault positions C04's)
	faulty := false
	rc := c.w.Client()
	s, t := c.refs()
	e.SetCase(c.key(), true, c.describe())
	simrt.Event("ImageCopy %s -> %s opts=%v pre=%s", s.CommonName(), t.CommonName(), c.optNames, c.preState)
	err := rc.ImageCopy(context.Background(), s, t, c.opts...)
	simrt.Event("ImageCopy returned %v", err)
	drainTasks(e, 20)
	for k, v := range c.w.Net.Fired {
		e.ProbeN("fault:"+k, 0)
		for i := 0; i < v; i++ {
			e.Fault(k)
		}
	}
	e.Probe("pairing:" + c.pairing)
	e.Probe("pre:" + c.preState)
	e.Probe("shape:" + c.gr.Shape)
	for _, o := range c.optNames {
		e.Probe("opt:" + o)
	}
	if err != nil {
		if !faulty {
			// the property is conditional on success, but a fault-free copy of a
			// well-formed image that fails would make the check vacuous
			e.Probe("copy-failed-faultfree")
			e.Info("failed", 1)
			simrt.Event("fault-free copy failed: %v", err)
			e.Violation("vacuity", "faultfree-copy-failed", "fault-free copy failed (%s, %s, %v): %v", c.pairing, c.preState, c.optNames, err)
		} else {
			e.Probe("copy-failed-under-faults")
		}
		return
	}
	e.Probe("copy-ok")
	c.checkComplete(e)
}

var _ = time.Second
