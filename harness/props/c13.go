package props

import (
	"bytes"
	"compress/gzip"
	"context"
	"encoding/base64"
	"encoding/json"
	"fmt"
	"io"
	"os"
	"path/filepath"
	"regexp"
	"sort"
	"strings"
	"time"

	"github.com/klauspost/compress/zstd"
	"github.com/opencontainers/go-digest"

	"github.com/regclient/regclient/internal/verif/core"
	"github.com/regclient/regclient/internal/verif/gen"
	"github.com/regclient/regclient/internal/verif/oracle"
	"github.com/regclient/regclient/internal/verif/regmodel"
	"github.com/regclient/regclient/internal/verif/simrt"
	"github.com/regclient/regclient/mod"
	"github.com/regclient/regclient/pkg/archive"
	"github.com/regclient/regclient/types/platform"
)

// C13: image modification yields a well-formed image and leaves the source untouched.
// Input/program-driven: the simulator supplies the registry or layout, the
// clock (two applications at different simulated times) and the independent audit.
func init() {
	core.Register(&core.Prop{ID: "C13", Run: runC13, MaxSteps: 400000, MaxIdle: 3000 * time.Hour})
}

func decompress(b []byte) ([]byte, error) {
	switch {
	case len(b) > 2 && b[0] == 0x1f && b[1] == 0x8b:
		zr, err := gzip.NewReader(bytes.NewReader(b))
		if err != nil {
			return nil, err
		}
		return io.ReadAll(zr)
	case len(b) > 3 && b[0] == 0x28 && b[1] == 0xb5 && b[2] == 0x2f && b[3] == 0xfd:
		zr, err := zstd.NewReader(bytes.NewReader(b))
		if err != nil {
			return nil, err
		}
		defer zr.Close()
		return io.ReadAll(zr)
	}
	return b, nil
}

type descJ struct {
	MediaType string   `json:"mediaType"`
	Digest    string   `json:"digest"`
	Size      int64    `json:"size"`
	Data      string   `json:"data"`
	URLs      []string `json:"urls"`
}

// auditImage checks the closure at digest d in st; returns problems.
func auditImage(st oracle.Store, d string, seen map[string]bool) []string {
	if seen[d] {
		return nil
	}
	seen[d] = true
	raw, _, ok := st.Manifest(d)
	if !ok {
		return []string{"manifest " + short(d) + " is not at the target"}
	}
	var out []string
	var m struct {
		Config    *descJ  `json:"config"`
		Layers    []descJ `json:"layers"`
		Manifests []descJ `json:"manifests"`
		Subject   *descJ  `json:"subject"`
	}
	if err := json.Unmarshal(raw, &m); err != nil {
		return []string{"manifest " + short(d) + " does not parse"}
	}
	checkDesc := func(x descJ, what string) []byte {
		if len(x.URLs) > 0 {
			return nil
		}
		b, ok := st.Blob(x.Digest)
		if !ok {
			if mb, _, isMan := st.Manifest(x.Digest); isMan {
				b, ok = mb, true
			}
		}
		if !ok {
			out = append(out, fmt.Sprintf("%s %s named by %s is not at the target", what, short(x.Digest), short(d)))
			return nil
		}
		if i := strings.IndexByte(x.Digest, ':'); i < 0 || regmodel.Digest(x.Digest[:i], b) != x.Digest {
			out = append(out, fmt.Sprintf("%s %s: stored content does not hash to the descriptor's digest", what, short(x.Digest)))
		}
		if x.Size != int64(len(b)) {
			out = append(out, fmt.Sprintf("%s %s: descriptor size %d, content has %d bytes", what, short(x.Digest), x.Size, len(b)))
		}
		if x.Data != "" {
			db, err := base64.StdEncoding.DecodeString(x.Data)
			if err != nil || !bytes.Equal(db, b) {
				out = append(out, fmt.Sprintf("%s %s: inline data differs from the content", what, short(x.Digest)))
			}
		}
		return b
	}
	if m.Subject != nil {
		checkDesc(*m.Subject, "subject")
	}
	for _, e := range m.Manifests {
		if b := checkDesc(e, "index entry"); b != nil {
			out = append(out, auditImage(st, e.Digest, seen)...)
		}
	}
	if m.Config != nil {
		cb := checkDesc(*m.Config, "config")
		var diffs []string
		nonEmptyHist, histLen := 0, 0
		if cb != nil && strings.Contains(m.Config.MediaType, "image") {
			var c struct {
				RootFS struct {
					DiffIDs []string `json:"diff_ids"`
				} `json:"rootfs"`
				History []struct {
					EmptyLayer bool `json:"empty_layer"`
				} `json:"history"`
			}
			if json.Unmarshal(cb, &c) == nil {
				diffs = c.RootFS.DiffIDs
				histLen = len(c.History)
				for _, h := range c.History {
					if !h.EmptyLayer {
						nonEmptyHist++
					}
				}
			}
			if len(diffs) != len(m.Layers) {
				out = append(out, fmt.Sprintf("config of %s lists %d diff_ids for %d layers", short(d), len(diffs), len(m.Layers)))
			}
			if histLen > 0 && nonEmptyHist != len(m.Layers) {
				out = append(out, fmt.Sprintf("config of %s has %d non-empty history entries for %d layers", short(d), nonEmptyHist, len(m.Layers)))
			}
		}
		for i, l := range m.Layers {
			lb := checkDesc(l, "layer")
			if lb == nil || i >= len(diffs) || !strings.Contains(m.Config.MediaType, "image") {
				continue
			}
			ub, err := decompress(lb)
			if err != nil {
				out = append(out, fmt.Sprintf("layer %s does not decompress: %v", short(l.Digest), err))
				continue
			}
			alg := diffs[i][:strings.IndexByte(diffs[i], ':')]
			if regmodel.Digest(alg, ub) != diffs[i] {
				var all []string
				for _, x := range diffs {
					all = append(all, short(x))
				}
				out = append(out, fmt.Sprintf("diff_id %d of %s is %s but the uncompressed layer hashes to %s (diff_ids %v)", i, short(d), short(diffs[i]), short(regmodel.Digest(alg, ub)), all))
			}
		}
	}
	return out
}

// manifestsAt lists the digests of everything stored as a manifest at an endpoint.
func manifestsAt(ep *endpoint) []string {
	var out []string
	if !ep.isLayout() {
		for d := range ep.reg.Repo(ep.repo).Manifests {
			out = append(out, d)
		}
		sort.Strings(out)
		return out
	}
	_ = filepath.Walk(filepath.Join(ep.dir, "blobs"), func(p string, fi os.FileInfo, err error) error {
		if err != nil || fi.IsDir() {
			return nil
		}
		if b, err := os.ReadFile(p); err == nil && looksLikeManifest(b) {
			out = append(out, filepath.Base(filepath.Dir(p))+":"+filepath.Base(p))
		}
		return nil
	})
	sort.Strings(out)
	return out
}

func runC13(e *core.Env) {
	ctx := context.Background()
	w := newWorld(e)
	// the per-host request limit stays at regclient's default: contention for request slots is C12's
	// subject, and this property's runs should not depend on it
	w.Concurrent = 3
	g := gen.New(e.Tape)
	docker := e.Choose("gen", 3, "docker") == 2
	comp := []string{"gzip", "none", "zstd"}[e.Choose("gen", 3, "comp")]
	useLayout := e.Choose("gen", 4, "endpoint") == 3
	ep := &endpoint{}
	if useLayout {
		ep.dir = e.TempDir()
	} else {
		ep.reg, ep.repo = w.AddReg("reg.test"), "proj/app"
		ep.reg.K.Referrers = e.Choose("gen", 2, "refapi") == 0
		// most registries refuse a manifest whose content is not there; a lenient one stores it
		ep.reg.K.Strict = e.Choose("gen", 2, "strict") == 1
	}
	base := strings.TrimSuffix(ep.refStr("x"), ":x")
	// image features
	withBase := e.Choose("gen", 4, "withbase") == 3
	foreign := e.Choose("gen", 5, "foreign") == 4
	buildArg := e.Choose("gen", 3, "buildarg") == 2
	var baseOld, baseNew *gen.RealResult
	// an image as an earlier invocation with a data limit left it: descriptors carry their content inline
	inline := e.Choose("gen", 4, "inline") == 3
	g.InlineChildren = inline
	// an image all of whose config times are one and the same instant (built with a fixed SOURCE_DATE_EPOCH)
	flatTimes := !withBase && e.Choose("gen", 3, "flattimes") == 2
	spec := gen.RealSpec{Docker: docker, Comp: comp, MinOwn: 1, Foreign: foreign, BuildArg: buildArg, Inline: inline, FlatTimes: flatTimes}
	// the base images are published in the image's own repository or, as base images usually are, in another one
	baseEP, baseRef := ep, base
	if withBase && e.Choose("gen", 2, "baserepo") == 1 {
		if useLayout {
			baseEP = &endpoint{dir: e.TempDir()}
		} else {
			baseEP = &endpoint{reg: ep.reg, repo: "library/os"}
		}
		baseRef = strings.TrimSuffix(baseEP.refStr("x"), ":x")
	}
	if withBase {
		baseOld = g.RealImageSpec(gen.RealSpec{Docker: docker, Comp: comp, MinOwn: 1})
		baseNew = g.RealImageSpec(gen.RealSpec{Docker: docker, Comp: comp, MinOwn: 1})
		spec.Base = baseOld
		if !useLayout {
			// (a layout's path differs from process to process and would make the image's digest differ with it)
			spec.Annot = map[string]string{"org.opencontainers.image.base.name": baseRef + ":base-new", "org.opencontainers.image.base.digest": baseOld.Node.Digest}
		}
	}
	res1 := g.RealImageSpec(spec)
	img1, layers1 := res1.Node, res1.Layers
	root := img1
	shape := "image"
	var arts []*gen.Node
	switch e.Choose("gen", 4, "shape") {
	case 1:
		shape = "index"
		sp2 := spec
		sp2.Arch = "arm64"
		img2 := g.RealImageSpec(sp2).Node
		root = g.Index(docker, []*gen.Node{img1, img2}, nil)
	case 2:
		if !docker {
			shape = "image+referrer"
			if e.Choose("gen", 2, "refInlineConfig") == 1 {
				g.ArtifactInlineConfig = true
				e.Probe("referrer-with-inline-config-data")
			}
			arts = append(arts, g.Artifact(img1, "application/vnd.example.sbom"))
			g.ArtifactInlineConfig = false
		}
	case 3:
		if !docker {
			shape = "index+attestation"
			root = g.IndexWithAttestation(img1)
		}
	}
	gr := &gen.Graph{Root: root, Referrers: arts, DigestTags: map[string]*gen.Node{}, Shape: shape}
	ep.install(gr, "v1", false)
	if withBase {
		baseEP.install(&gen.Graph{Root: baseOld.Node, DigestTags: map[string]*gen.Node{}}, "base-old", true)
		baseEP.install(&gen.Graph{Root: baseNew.Node, DigestTags: map[string]*gen.Node{}}, "base-new", true)
		if baseEP != ep {
			e.Probe("base-images-in-another-repository")
		}
	}
	// the foreign layer's content is also stored by the repository (as after a copy with external layers included)
	gen.Walk(root, func(n *gen.Node) {
		for _, b := range n.Blobs {
			if b.External && b.Hosted {
				if ep.isLayout() {
					if err := gen.LayoutFile(ep.dir, b.Desc.Digest, b.Data); err != nil {
						panic(err)
					}
				} else {
					ep.reg.Repo(ep.repo).Blobs[b.Desc.Digest] = b.Data
				}
			}
		}
	})
	rc := w.Client()
	// target: same repository (by digest or a new tag), the source tag itself, or another repository
	tgtKind := []string{"digest", "new-tag", "source-tag", "other-repo"}[e.Choose("gen", 4, "target")]
	if useLayout && tgtKind == "other-repo" {
		tgtKind = "new-tag"
	}
	tgtEP := ep
	tMax := time.Date(2020, 1, 1, 0, 0, 0, 0, time.UTC)
	tFuture := time.Date(2040, 1, 1, 0, 0, 0, 0, time.UTC)
	tSet := time.Date(2019, 6, 1, 0, 0, 0, 0, time.UTC)
	// the attestation image's config has no environment, labels or ports of its own: options that repeat
	// a value of the image's config are not without effect on it
	plainCfg := shape != "index+attestation"
	type optGen struct {
		name string
		mk   func() mod.Opts
		noop bool // changes nothing on any generated image
		must bool // changes every generated image, and no other option undoes it
	}
	ociLayerZstd := "application/vnd.oci.image.layer.v1.tar+zstd"
	pool := []optGen{
		{"annotation", func() mod.Opts { return mod.WithAnnotation("org.example.added", "x") }, false, true},
		{"annotation-all-platforms", func() mod.Opts { return mod.WithAnnotation("[*]org.example.everywhere", "x") }, false, true},
		{"annotation-amd64-only", func() mod.Opts { return mod.WithAnnotation("[linux/amd64]org.example.amd", "x") }, false, false},
		{"annotation-delete", func() mod.Opts { return mod.WithAnnotation("org.example.keep", "") }, false, false},
		{"annotation-oci-base", func() mod.Opts {
			return mod.WithAnnotationOCIBase(mustRef("base.test/os/img:1"), digest.Digest(regmodel.Digest("sha256", []byte("base"))))
		}, false, false},
		{"annotation-promote-common", func() mod.Opts { return mod.WithAnnotationPromoteCommon() }, false, false},
		{"label-to-annotation", func() mod.Opts { return mod.WithLabelToAnnotation() }, false, false},
		{"label", func() mod.Opts { return mod.WithLabel("added", "1") }, false, true},
		{"label-same-value(no-op)", func() mod.Opts { return mod.WithLabel("version", "1.0") }, plainCfg, false},
		{"label-delete", func() mod.Opts { return mod.WithLabel("org.example.n", "") }, false, false},
		{"env", func() mod.Opts { return mod.WithEnv("ADDED", "1") }, false, true},
		{"env-same-value(no-op)", func() mod.Opts { return mod.WithEnv("KEEP", "1") }, plainCfg, false},
		{"env-delete", func() mod.Opts { return mod.WithEnv("KEEP", "") }, false, false},
		{"build-arg-rm", func() mod.Opts { return mod.WithBuildArgRm("SECRET", regexp.MustCompile("hunter[0-9]+")) }, !buildArg, false},
		{"config-cmd", func() mod.Opts { return mod.WithConfigCmd([]string{"/bin/other", "-v"}) }, false, true},
		{"config-entrypoint", func() mod.Opts { return mod.WithConfigEntrypoint([]string{"/entry"}) }, false, true},
		{"config-platform-arm64", func() mod.Opts {
			return mod.WithConfigPlatform(platform.Platform{OS: "linux", Architecture: "arm64", Variant: "v8"})
		}, false, true},
		{"expose-add", func() mod.Opts { return mod.WithExposeAdd("9090/tcp") }, false, false},
		{"expose-add-present(no-op)", func() mod.Opts { return mod.WithExposeAdd("8080/tcp") }, plainCfg, false},
		{"expose-rm", func() mod.Opts { return mod.WithExposeRm("8080/tcp") }, false, false},
		{"expose-rm-absent(no-op)", func() mod.Opts { return mod.WithExposeRm("7070/tcp") }, true, false},
		{"volume-add", func() mod.Opts { return mod.WithVolumeAdd("/more") }, false, false},
		{"volume-rm", func() mod.Opts { return mod.WithVolumeRm("/data") }, false, false},
		{"volume-rm-absent(no-op)", func() mod.Opts { return mod.WithVolumeRm("/nothing") }, true, false},
		{"config-timestamp-max", func() mod.Opts { return mod.WithConfigTimestampMax(tMax) }, false, false},
		{"config-timestamp-max-future(no-op)", func() mod.Opts { return mod.WithConfigTimestampMax(tFuture) }, true, false},
		{"config-timestamp-set", func() mod.Opts { return mod.WithConfigTimestamp(mod.OptTime{Set: tSet}) }, false, false},
		// the time to set is the one the image carries everywhere already, and lies after the cut-off: nothing changes
		{"config-timestamp-set-own-time-after-cutoff", func() mod.Opts {
			return mod.WithConfigTimestamp(mod.OptTime{Set: gen.RealBaseTime, After: gen.RealBaseTime.AddDate(-1, 0, 0)})
		}, flatTimes && plainCfg, false},
		{"config-timestamp-from-label", func() mod.Opts { return mod.WithConfigTimestampFromLabel("org.opencontainers.image.created") }, false, false},
		{"layer-timestamp-max", func() mod.Opts { return mod.WithLayerTimestampMax(tMax) }, false, false},
		{"layer-timestamp-max-future(no-op)", func() mod.Opts { return mod.WithLayerTimestampMax(tFuture) }, true, false},
		{"layer-timestamp-set-after", func() mod.Opts { return mod.WithLayerTimestamp(mod.OptTime{Set: tSet, After: tMax}) }, false, false},
		{"layer-timestamp-set-base-layers-1", func() mod.Opts { return mod.WithLayerTimestamp(mod.OptTime{Set: tSet, BaseLayers: 1}) }, false, false},
		{"layer-timestamp-from-label", func() mod.Opts { return mod.WithLayerTimestampFromLabel("org.opencontainers.image.created") }, false, false},
		{"layer-rm-index-0", func() mod.Opts { return mod.WithLayerRmIndex(0) }, false, false},
		{"layer-rm-index-1", func() mod.Opts { return mod.WithLayerRmIndex(1) }, false, false},
		{"layer-rm-created-by", func() mod.Opts { return mod.WithLayerRmCreatedBy(*regexp.MustCompile("layer1")) }, false, false},
		{"layer-strip-file", func() mod.Opts { return mod.WithLayerStripFile("etc/common.conf") }, false, false},
		{"layer-strip-dir", func() mod.Opts { return mod.WithLayerStripFile("dir0") }, false, false},
		{"layer-strip-missing-file(no-op)", func() mod.Opts { return mod.WithLayerStripFile("no/such/file") }, true, false},
		{"layer-compress-gzip", func() mod.Opts { return mod.WithLayerCompression(archive.CompressGzip) }, comp == "gzip", false},
		{"layer-compress-none", func() mod.Opts { return mod.WithLayerCompression(archive.CompressNone) }, comp == "none" && !(foreign && docker), false},
		{"layer-compress-zstd", func() mod.Opts { return mod.WithLayerCompression(archive.CompressZstd) }, comp == "zstd" && !(foreign && docker), false},
		{"layer-reproducible", func() mod.Opts { return mod.WithLayerReproducible() }, false, false},
		{"digest-algo-sha512", func() mod.Opts { return mod.WithDigestAlgo(digest.SHA512) }, false, true},
		{"layer-digest-algo-sha512", func() mod.Opts { return mod.WithLayerDigestAlgo(digest.SHA512) }, false, true},
		{"config-digest-algo-sha512", func() mod.Opts { return mod.WithConfigDigestAlgo(digest.SHA512) }, false, true},
		{"manifest-digest-algo-sha512", func() mod.Opts { return mod.WithManifestDigestAlgo(digest.SHA512) }, false, true},
		{"to-docker", func() mod.Opts { return mod.WithManifestToDocker() }, docker, false},
		{"to-oci", func() mod.Opts { return mod.WithManifestToOCI() }, !docker, false},
		{"data-64", func() mod.Opts { return mod.WithData(64) }, false, false},
		{"data-4096", func() mod.Opts { return mod.WithData(4096) }, false, false},
		{"data-0", func() mod.Opts { return mod.WithData(0) }, !inline, false},
		{"external-urls-rm", func() mod.Opts { return mod.WithExternalURLsRm() }, !foreign, false},
		{"to-oci-referrers", func() mod.Opts { return mod.WithManifestToOCIReferrers() }, shape != "index+attestation", false},
		{"add-layer", func() mod.Opts {
			return mod.WithLayerAddTar(bytes.NewReader(layers1[0].Tar), "", nil)
		}, false, true},
		{"add-layer-zstd", func() mod.Opts {
			return mod.WithLayerAddTar(bytes.NewReader(layers1[len(layers1)-1].Tar), ociLayerZstd, nil)
		}, false, true},
		{"add-layer-amd64-only", func() mod.Opts {
			return mod.WithLayerAddTar(bytes.NewReader(layers1[0].Tar), "", []platform.Platform{{OS: "linux", Architecture: "amd64"}})
		}, false, true},
	}
	if withBase {
		pool = append(pool,
			optGen{"rebase-refs", func() mod.Opts {
				return mod.WithRebaseRefs(mustRef(baseRef+":base-old"), mustRef(baseRef+":base-new"))
			}, false, false},
			optGen{"rebase-refs-same-base(no-op)", func() mod.Opts {
				return mod.WithRebaseRefs(mustRef(baseRef+":base-old"), mustRef(baseRef+":base-old"))
			}, true, false},
			optGen{"rebase-from-annotations", func() mod.Opts { return mod.WithRebase() }, false, false},
			optGen{"layer-timestamp-set-base-ref", func() mod.Opts {
				return mod.WithLayerTimestamp(mod.OptTime{Set: tSet, BaseRef: mustRef(baseRef + ":base-old")})
			}, false, false})
	}
	var chosen []optGen
	onlyNoop := e.Choose("gen", 6, "onlynoop") == 5
	for i, n := 0, e.Choose("gen", 6, "nopts"); i < n; i++ {
		for tries := 0; tries < 40; tries++ {
			o := pool[e.Choose("gen", len(pool), "opt")]
			if onlyNoop && !o.noop {
				continue
			}
			chosen = append(chosen, o)
			break
		}
	}
	var names []string
	allNoop, mustChange := true, false
	for _, o := range chosen {
		names = append(names, o.name)
		if !o.noop {
			allNoop = false
		}
		mustChange = mustChange || o.must
	}
	epoc := e.Choose("gen", 2, "epoc") == 1
	sample := map[string]any{"source_date_epoc": epoc, "shape": shape, "family": map[bool]string{true: "docker", false: "oci"}[docker], "layer_compression": comp, "endpoint": map[bool]string{true: "layout", false: "registry"}[useLayout], "target": tgtKind, "options": names,
		"inline_data_in_source": inline, "with_base_image": withBase, "base_in_other_repository": baseEP != ep, "foreign_layer": foreign, "build_args_in_history": buildArg}
	e.SetCase(fmt.Sprintf("%v|%s", sample, root.Digest), true, sample)
	build := func() []mod.Opts {
		var opts []mod.Opts
		for _, o := range chosen {
			opts = append(opts, o.mk())
		}
		switch tgtKind {
		case "new-tag":
			opts = append(opts, mod.WithRefTgt(mustRef(base+":modified")))
		case "source-tag":
			opts = append(opts, mod.WithRefTgt(mustRef(base+":v1")))
		case "other-repo":
			opts = append(opts, mod.WithRefTgt(mustRef("reg.test/other/app:modified")))
		}
		return opts
	}
	if tgtKind == "other-repo" {
		tgtEP = &endpoint{reg: ep.reg, repo: "other/app"}
	}
	srcStore := ep.store()
	srcBefore := map[string][]byte{}
	for _, d := range manifestsAt(ep) {
		raw, _, _ := srcStore.Manifest(d)
		srcBefore[d] = raw
	}
	tgtBefore := map[string]bool{}
	for _, d := range manifestsAt(tgtEP) {
		tgtBefore[d] = true
	}
	tagsBefore := map[string]string{}
	for _, t := range srcStore.Tags() {
		tagsBefore[t], _ = srcStore.Tag(t)
	}
	// each application is a separate invocation: mod reads its start time (recorded in the history entry of an
	// added layer) when the process starts, from SOURCE_DATE_EPOC when that is set
	if epoc {
		os.Setenv("SOURCE_DATE_EPOC", "1600000000")
		defer os.Unsetenv("SOURCE_DATE_EPOC")
	}
	mod.VerifProcessStart()
	simrt.Event("mod.Apply %v on %s (%s, %s) -> %s", names, shape, sample["family"], comp, tgtKind)
	rOut, err := mod.Apply(ctx, rc, mustRef(base+":v1"), build()...)
	simrt.Event("mod.Apply returned %v digest=%s", err, short(rOut.Digest))
	drainTasks(e, 10)
	for _, n := range names {
		e.Probe("opt:" + n)
	}
	e.Probe("shape:" + shape)
	tst := tgtEP.store()
	// the source is untouched unless it is the target (also when Apply fails)
	checkSource := func() {
		for _, t := range srcStore.Tags() {
			d, _ := srcStore.Tag(t)
			if old, was := tagsBefore[t]; was && old != d && !(t == "v1" && tgtKind == "source-tag") {
				if isFallbackTag(t) && tgtKind != "other-repo" {
					continue // the referrer list of the source repository, which is also the target repository
				}
				e.Violation("source", "source-tag-moved", "after %v the tag %s moved from %s to %s although the target is %s", names, t, short(old), short(d), tgtKind)
			}
		}
		for t, old := range tagsBefore {
			if _, ok := srcStore.Tag(t); !ok {
				e.Violation("source", "source-tag-removed", "after %v the tag %s (%s) is gone", names, t, short(old))
			}
		}
		for d, raw := range srcBefore {
			if b, _, ok := srcStore.Manifest(d); !ok || !bytes.Equal(b, raw) {
				e.Violation("source", "source-manifest-altered", "after %v the source manifest %s was altered or removed", names, short(d))
			}
		}
	}
	if err != nil {
		e.Probe("apply-refused")
		e.Probe("refused:" + refusalClass(err))
		if f := os.Getenv("VERIF_C13_REFUSALS"); f != "" && f != "1" && strings.Contains(err.Error(), f) {
			e.Probe(fmt.Sprintf("refused-case: %v %s %s %s base=%v foreign=%v strict=%v", names, shape, comp, tgtKind, withBase, foreign, ep.reg != nil && ep.reg.K.Strict))
		}
		checkSource()
		return
	}
	e.Probe("apply-ok")
	// the digest of the result
	resD := rOut.Digest
	if resD == "" {
		resD, _ = tst.Tag(rOut.Tag)
	}
	if resD == "" && !mustChange {
		// Apply found nothing to change and wrote nothing: the result is the original image (that the
		// requested tag is then not created is outside what the statement promises)
		e.Probe("no-change-target-tag-not-written")
		resD = root.Digest
	}
	if resD == "" {
		e.Violation("result", "result-unresolvable", "Apply of %v returned %s which does not resolve at the target", names, rOut.CommonName())
		return
	}
	if resD != root.Digest {
		e.Probe("result-differs-from-source")
	}
	seen := map[string]bool{}
	probs := auditImage(tst, resD, seen)
	// every manifest written: also those outside the result's closure (rewritten referrers, referrer lists)
	for _, d := range manifestsAt(tgtEP) {
		if !tgtBefore[d] && !seen[d] {
			e.Probe("audited-written-manifest-outside-closure")
			probs = append(probs, auditImage(tst, d, seen)...)
		}
	}
	if len(probs) > 0 {
		e.Violation("well-formed", "result-"+classifyC13(probs[0]), "after %v on a %s %s image (%s layers, target %s, base image %v, foreign layer %v): %s", names, sample["family"], shape, comp, tgtKind, withBase, foreign, strings.Join(probs, "; "))
	}
	checkSource()
	// options that change nothing yield the original digest
	if allNoop {
		e.Probe("all-no-op")
		if len(names) > 0 {
			e.Probe("all-no-op-with-options")
		}
		if resD != root.Digest {
			e.Violation("no-op", "no-op-changed-digest", "options %v change nothing, yet the result digest is %s instead of the original %s", names, short(resD), short(root.Digest))
		}
	}
	// the same options on the same input at another time yield the same digest
	if tgtKind != "source-tag" {
		simrt.Sleep(time.Duration(1+e.Choose("gen", 1000, "later")) * time.Hour)
		mod.VerifProcessStart()
		rOut2, err2 := mod.Apply(ctx, rc, mustRef(base+":v1"), build()...)
		drainTasks(e, 10)
		if err2 != nil {
			e.Violation("deterministic", "second-apply-failed", "the second application of %v failed: %v", names, err2)
			return
		}
		d2 := rOut2.Digest
		if d2 == "" {
			d2, _ = tst.Tag(rOut2.Tag)
		}
		if d2 == "" && !mustChange {
			d2 = root.Digest
		}
		if d2 != resD {
			fp := "same-options-different-digest"
			addsLayer := false
			for _, n := range names {
				addsLayer = addsLayer || strings.HasPrefix(n, "add-layer")
			}
			if addsLayer && !epoc {
				fp += ":layer-added-without-SOURCE_DATE_EPOC"
			}
			e.Violation("deterministic", fp, "%v applied twice (two invocations some simulated hours apart) to the same image gave %s and then %s", names, short(resD), short(d2))
		}
		e.Probe("applied-twice")
	}
}

func isFallbackTag(t string) bool {
	return (strings.HasPrefix(t, "sha256-") || strings.HasPrefix(t, "sha512-")) && !strings.Contains(t, ".")
}

var reDigits = regexp.MustCompile(`[0-9a-f]{12,}|[0-9]+`)

func refusalClass(err error) string {
	s := err.Error()
	if os.Getenv("VERIF_C13_REFUSALS") != "" {
		// debugging aid: the message itself, without digests and numbers
		t := reDigits.ReplaceAllString(s, "#")
		if len(t) > 110 {
			t = t[:110]
		}
		return t
	}
	for _, k := range []string{"annotation", "not supported", "unsupported", "not found", "mismatch", "history", "layer", "platform", "digest", "label", "subject", "referrer"} {
		if strings.Contains(s, k) {
			return k
		}
	}
	return "other"
}

func classifyC13(s string) string {
	switch {
	case strings.Contains(s, "diff_id"):
		return "diff-id-wrong"
	case strings.Contains(s, "history"):
		return "history-misaligned"
	case strings.Contains(s, "inline data"):
		return "inline-data-wrong"
	case strings.Contains(s, "not at the target"):
		return "content-missing"
	case strings.Contains(s, "size"):
		return "descriptor-size-wrong"
	case strings.Contains(s, "hash"):
		return "descriptor-digest-wrong"
	}
	return "malformed"
}
