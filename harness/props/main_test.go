//go:debug asynctimerchan=0
package props

import (
	"testing"

	"github.com/regclient/regclient/internal/verif/core"
)

func TestVerif(t *testing.T) { core.Main(t) }
