package props

import (
	"bytes"
	"context"
	"errors"
	"fmt"
	"io"
	"time"

	"github.com/opencontainers/go-digest"

	"github.com/regclient/regclient/internal/pqueue"
	"github.com/regclient/regclient/internal/reqmeta"
	"github.com/regclient/regclient/internal/verif/core"
	"github.com/regclient/regclient/internal/verif/gen"
	"github.com/regclient/regclient/internal/verif/simnet"
	"github.com/regclient/regclient/internal/verif/simrt"
	"github.com/regclient/regclient/types/descriptor"
)

// C17: throttles never exceed their limit, never deadlock, never lose a slot.
//
// System under test: the real internal/pqueue (instrumented copy), with the
// default and the size-aware priority function. 2-5 tasks run tape-drawn
// programs of Acquire / TryAcquire / AcquireMulti over overlapping queue
// sets, holding for simulated time, with cancellation by deadline or by a
// separate canceller task so that cancel races release.
func init() {
	core.Register(&core.Prop{ID: "C17", Run: runC17, Liveness: true, MaxSteps: 400000, MaxIdle: time.Hour})
}

type c17Op struct {
	Kind    string       `json:"op"` // acquire, try, multi
	Queues  []int        `json:"queues"`
	HoldUS  int          `json:"hold_us"`
	Cancel  string       `json:"cancel"` // none, deadline, canceller
	AfterUS int          `json:"cancel_after_us"`
	Meta    reqmeta.Data `json:"meta"`
}

// The queue is generic: reghttp instantiates it with reqmeta.Data (size-aware priority), regsync and regbot with the
// zero-size struct{} - for which all element addresses coincide, so both instantiations are run.
func runC17(e *core.Env) {
	if e.Choose("gen", 5, "level") == 4 {
		c17Client(e)
		return
	}
	if e.Choose("gen", 3, "elemtype") == 2 {
		e.Probe("element-type:struct{}")
		runC17T(e, "struct{}", func(reqmeta.Data) struct{} { return struct{}{} }, nil)
		return
	}
	e.Probe("element-type:reqmeta.Data")
	runC17T(e, "reqmeta.Data", func(d reqmeta.Data) reqmeta.Data { return d }, reqmeta.DataNext)
}

func runC17T[T any](e *core.Env, tname string, mk func(reqmeta.Data) T, next func(queued, active []*T) int) {
	nq := e.Range("gen", 1, 3, "queues")
	nt := e.Range("gen", 2, 5, "tasks")
	useDataNext := e.Chance("gen", 1, 2, "datanext") && next != nil
	limits := make([]int, nq)
	qs := make([]*pqueue.Queue[T], nq)
	for i := range qs {
		limits[i] = e.Range("gen", 1, 3, "limit")
		o := pqueue.Opts[T]{Max: limits[i]}
		if useDataNext {
			o.Next = next
		}
		qs[i] = pqueue.New(o)
	}
	progs := make([][]c17Op, nt)
	anyCancel, anyMulti := false, false
	for t := range progs {
		n := e.Range("gen", 1, 4, "ops")
		for k := 0; k < n; k++ {
			op := c17Op{}
			switch e.Choose("gen", 4, "kind") {
			case 0, 1:
				op.Kind = "acquire"
				op.Queues = []int{e.Choose("gen", nq, "q")}
			case 2:
				op.Kind = "try"
				op.Queues = []int{e.Choose("gen", nq, "q")}
			case 3:
				op.Kind = "multi"
				anyMulti = true
				cnt := e.Range("gen", 1, nq+1, "setsize") // may contain a duplicate
				for j := 0; j < cnt; j++ {
					op.Queues = append(op.Queues, e.Choose("gen", nq, "q"))
				}
			}
			op.HoldUS = []int{0, 1, 50, 1000}[e.Choose("gen", 4, "hold")]
			switch e.Choose("gen", 4, "cancel") {
			case 0, 1:
				op.Cancel = "none"
			case 2:
				op.Cancel = "deadline"
				anyCancel = true
			case 3:
				op.Cancel = "canceller"
				anyCancel = true
			}
			op.AfterUS = []int{0, 1, 50, 1000, 1001}[e.Choose("gen", 5, "after")]
			op.Meta = reqmeta.Data{Kind: reqmeta.Kind(e.Choose("gen", 5, "mkind")), Size: int64([]int{0, 100, 5 << 20, 50 << 20}[e.Choose("gen", 4, "msize")])}
			progs[t] = append(progs[t], op)
		}
	}
	sample := map[string]any{"element_type": tname, "limits": limits, "datanext": useDataNext, "programs": progs}
	e.SetCase(fmt.Sprintf("%s|%v|%v|%+v", tname, limits, useDataNext, progs), nt >= 2, sample)

	holders := make([]int, nq)
	e.Sched.OnStep = func() {
		for i := range holders {
			if holders[i] > limits[i] {
				e.Violation("bound", "holders>max", "queue %d has %d holders, max %d", i, holders[i], limits[i])
			}
		}
	}
	finished := 0
	allDone := make(chan struct{})
	for t := range progs {
		t := t
		simrt.Go(func() {
			defer func() {
				finished++
				if finished == nt {
					close(allDone)
				}
			}()
			for _, op := range progs[t] {
				ctx, cancel := context.Background(), context.CancelFunc(func() {})
				switch op.Cancel {
				case "deadline":
					ctx, cancel = context.WithTimeout(ctx, time.Duration(op.AfterUS)*time.Microsecond)
				case "canceller":
					ctx, cancel = context.WithCancel(ctx)
					c, d := cancel, time.Duration(op.AfterUS)*time.Microsecond
					simrt.Go(func() {
						simrt.Sleep(d)
						c()
					})
				}
				var done func()
				var err error
				switch op.Kind {
				case "acquire":
					done, err = qs[op.Queues[0]].Acquire(ctx, mk(op.Meta))
				case "try":
					done, err = qs[op.Queues[0]].TryAcquire(ctx, mk(op.Meta))
				case "multi":
					set := make([]*pqueue.Queue[T], len(op.Queues))
					for i, qi := range op.Queues {
						set[i] = qs[qi]
					}
					var mctx context.Context
					mctx, done, err = pqueue.AcquireMulti(ctx, mk(op.Meta), set...)
					if err == nil && done != nil {
						// the returned context must make nested acquires of a member succeed at once
						d2, err2 := qs[op.Queues[0]].Acquire(mctx, mk(op.Meta))
						if err2 != nil || d2 == nil {
							e.Violation("multi-ctx", "nested-acquire-failed", "Acquire with the AcquireMulti context failed: %v", err2)
						} else {
							d2()
						}
					}
				}
				if err != nil {
					e.Probe("acquire-error")
					if done != nil {
						e.Violation("cancel", "error-with-release-fn", "%s returned an error (%v) together with a release function", op.Kind, err)
					}
					if ctx.Err() == nil {
						e.Violation("cancel", "error-without-cancel", "%s failed with %v although its context is live", op.Kind, err)
					}
					cancel()
					continue
				}
				if done == nil {
					if op.Kind != "try" {
						e.Violation("acquire", "nil-release-fn", "%s returned neither error nor release function", op.Kind)
					}
					e.Probe("try-refused")
					cancel()
					continue
				}
				seen := map[int]bool{}
				for _, qi := range op.Queues {
					if !seen[qi] {
						holders[qi]++
						seen[qi] = true
					}
				}
				if ctx.Err() != nil {
					e.Probe("acquired-after-cancel")
				}
				e.Probe("acquired-" + op.Kind)
				if op.HoldUS > 0 {
					simrt.Sleep(time.Duration(op.HoldUS) * time.Microsecond)
				} else {
					simrt.Yield("hold")
				}
				for qi := range seen {
					holders[qi]--
				}
				done()
				cancel()
			}
		})
	}
	// wait for all workers: poll in simulated time (bounded by the scheduler's
	// deadlock and step limits, which are violations for this property)
	// a worker that never returns leaves every task blocked: the scheduler
	// reports that as a deadlock, which is a violation for this property
	<-allDone
	simrt.Yield("joined")
	if anyCancel {
		e.Probe("with-cancellation")
	}
	if anyMulti {
		e.Probe("with-multi")
	}
	// quiescence: every queue admits exactly max fresh TryAcquires
	for i, q := range qs {
		var rel []func()
		for k := 0; k < limits[i]; k++ {
			d, err := q.TryAcquire(context.Background(), mk(reqmeta.Data{}))
			if err != nil || d == nil {
				e.Violation("slot-lost", "slot-lost", "after all holders finished queue %d (max %d) admits only %d", i, limits[i], k)
				break
			}
			rel = append(rel, d)
		}
		if len(rel) == limits[i] {
			d, _ := q.TryAcquire(context.Background(), mk(reqmeta.Data{}))
			if d != nil {
				e.Violation("bound", "extra-slot", "queue %d (max %d) admits %d", i, limits[i], limits[i]+1)
				d()
			}
		}
		for _, d := range rel {
			d()
		}
	}
}

// onlyReader hides Seek: a stream that cannot be sent twice.
type onlyReader struct{ r io.Reader }

func (o onlyReader) Read(p []byte) (int, error) { return o.r.Read(p) }

// c17Client: the host throttle as the client uses it. One public operation runs against a registry with up to
// three transient faults on its requests (so that error and retry paths are taken), possibly with a body left
// unread or closed early; afterwards every request slot of the host must be free again: as many responses as the
// host allows concurrent requests can be opened and held at the same time.
func c17Client(e *core.Env) {
	ctx := context.Background()
	w := newWorld(e)
	w.Concurrent = int64(1 + e.Choose("gen", 3, "concurrent"))
	reg := w.AddReg("reg.test")
	reg.K.Mount = e.Choose("gen", 3, "mount")
	g := gen.New(e.Tape)
	g.MaxBlob = 300
	g.NoExt = true
	gr := g.Graph(gen.Opts{NoDigestTags: true})
	gr.Install(reg, "proj/app", "v1")
	audit := []byte("content of the blob the audit reads")
	auditDig := reg.PutBlob("proj/app", audit)
	var someBlob *gen.Blob
	for _, n := range gr.AllNodes() {
		for _, b := range n.Blobs {
			if b.Hosted && !b.External && len(b.Data) > 2 && someBlob == nil {
				someBlob = b
			}
		}
	}
	w.Net.Rate = 300
	w.Net.MaxFaults = 1 + e.Choose("gen", 3, "nfaults")
	w.Net.Enabled = []int{simnet.F500, simnet.F502, simnet.F429, simnet.FConnReset, simnet.FTruncate, simnet.F404, simnet.F504}
	rc := w.Client()
	op := []string{"blob-put-stream", "blob-put-stream", "blob-put-seekable", "blob-get-read", "blob-get-close-early", "manifest-get", "image-copy-same-registry", "blob-copy", "tag-list"}[e.Choose("gen", 9, "op")]
	sample := map[string]any{"level": "client (host throttle through public operations)", "op": op, "req_concurrent": w.Concurrent, "faults_max": w.Net.MaxFaults}
	e.SetCase(fmt.Sprintf("client|%s|%d|%d|%s", op, w.Concurrent, w.Net.MaxFaults, gr.Root.Digest), true, sample)
	e.Probe("level:client")
	r := mustRef("reg.test/proj/app:v1")
	data := g.Bytes(1 + e.Choose("gen", 600, "putlen"))
	var err error
	switch op {
	case "blob-put-stream":
		// with a full descriptor the stream goes out in a single PUT, which cannot be repeated after a failure
		d := descriptor.Descriptor{}
		if e.Choose("gen", 2, "fulldesc") == 1 {
			d = descriptor.Descriptor{Digest: digest.FromBytes(data), Size: int64(len(data))}
		}
		_, err = rc.BlobPut(ctx, mustRef("reg.test/proj/up"), d, onlyReader{bytes.NewReader(data)})
	case "blob-put-seekable":
		_, err = rc.BlobPut(ctx, mustRef("reg.test/proj/up"), descriptor.Descriptor{Digest: digest.FromBytes(data), Size: int64(len(data))}, bytes.NewReader(data))
	case "blob-get-read", "blob-get-close-early":
		if someBlob == nil {
			break
		}
		var br io.ReadCloser
		br, err = rc.BlobGet(ctx, r, descriptor.Descriptor{Digest: digest.Digest(someBlob.Desc.Digest), Size: int64(len(someBlob.Data))})
		if err == nil {
			if op == "blob-get-read" {
				_, err = io.ReadAll(br)
			} else {
				_, _ = br.Read(make([]byte, 1))
			}
			_ = br.Close()
		}
	case "manifest-get":
		_, err = rc.ManifestGet(ctx, r)
	case "image-copy-same-registry":
		err = rc.ImageCopy(ctx, r, mustRef("reg.test/copy/app:v1"))
	case "blob-copy":
		if someBlob != nil {
			err = rc.BlobCopy(ctx, r, mustRef("reg.test/copy/app"), descriptor.Descriptor{Digest: digest.Digest(someBlob.Desc.Digest), Size: int64(len(someBlob.Data))})
		}
	case "tag-list":
		_, err = rc.TagList(ctx, r)
	}
	simrt.Event("%s -> %v", op, err)
	if err != nil {
		e.Probe("client-op-failed")
	} else {
		e.Probe("client-op-ok")
	}
	for k, v := range w.Net.Fired {
		for i := 0; i < v; i++ {
			e.Fault(k)
		}
	}
	drainTasks(e, 30)
	// audit, without faults: hold as many responses open as the host admits concurrent requests
	w.Net.Enabled = nil
	actx, cancel := context.WithTimeout(ctx, 10*time.Hour)
	defer cancel()
	var open []io.Closer
	for i := 0; i < int(w.Concurrent); i++ {
		br, aerr := rc.BlobGet(actx, r, descriptor.Descriptor{Digest: digest.Digest(auditDig), Size: int64(len(audit))})
		if aerr != nil {
			if errors.Is(aerr, context.DeadlineExceeded) {
				e.Violation("slot-lost", "host-slot-lost-after:"+op, "after %s (err=%v) with reqConcurrent %d only %d responses could be held open at once: request %d waited for a slot until its deadline", op, err, w.Concurrent, i, i+1)
			} else {
				e.Probe("audit-request-failed")
			}
			break
		}
		open = append(open, br)
	}
	for _, c := range open {
		_ = c.Close()
	}
	e.Probe("host-slots-audited")
}
