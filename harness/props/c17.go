package props

import (
	"context"
	"fmt"
	"time"

	"github.com/regclient/regclient/internal/pqueue"
	"github.com/regclient/regclient/internal/reqmeta"
	"github.com/regclient/regclient/internal/verif/core"
	"github.com/regclient/regclient/internal/verif/simrt"
)

// C17: throttles never exceed their limit, never deadlock, never lose a slot.
//
// System under test: the real internal/pqueue (instrumented copy), with the
// default and the size-aware priority function. 2-5 tasks run tape-drawn
// programs of Acquire / TryAcquire / AcquireMulti over overlapping queue
// sets, holding for simulated time, with cancellation by deadline or by a
// separate canceller task so that cancel races release.
func init() {
	core.Register(&core.Prop{ID: "C17", Run: runC17, Liveness: true, MaxSteps: 400000, MaxIdle: time.Hour})
}

type c17Op struct {
	Kind    string       `json:"op"` // acquire, try, multi
	Queues  []int        `json:"queues"`
	HoldUS  int          `json:"hold_us"`
	Cancel  string       `json:"cancel"` // none, deadline, canceller
	AfterUS int          `json:"cancel_after_us"`
	Meta    reqmeta.Data `json:"meta"`
}

// The queue is generic: reghttp instantiates it with reqmeta.Data (size-aware priority), regsync and regbot with the
// zero-size struct{} - for which all element addresses coincide, so both instantiations are run.
func runC17(e *core.Env) {
	if e.Choose("gen", 3, "elemtype") == 2 {
		e.Probe("element-type:struct{}")
		runC17T(e, "struct{}", func(reqmeta.Data) struct{} { return struct{}{} }, nil)
		return
	}
	e.Probe("element-type:reqmeta.Data")
	runC17T(e, "reqmeta.Data", func(d reqmeta.Data) reqmeta.Data { return d }, reqmeta.DataNext)
}

func runC17T[T any](e *core.Env, tname string, mk func(reqmeta.Data) T, next func(queued, active []*T) int) {
	nq := e.Range("gen", 1, 3, "queues")
	nt := e.Range("gen", 2, 5, "tasks")
	useDataNext := e.Chance("gen", 1, 2, "datanext") && next != nil
	limits := make([]int, nq)
	qs := make([]*pqueue.Queue[T], nq)
	for i := range qs {
		limits[i] = e.Range("gen", 1, 3, "limit")
		o := pqueue.Opts[T]{Max: limits[i]}
		if useDataNext {
			o.Next = next
		}
		qs[i] = pqueue.New(o)
	}
	progs := make([][]c17Op, nt)
	anyCancel, anyMulti := false, false
	for t := range progs {
		n := e.Range("gen", 1, 4, "ops")
		for k := 0; k < n; k++ {
			op := c17Op{}
			switch e.Choose("gen", 4, "kind") {
			case 0, 1:
				op.Kind = "acquire"
				op.Queues = []int{e.Choose("gen", nq, "q")}
			case 2:
				op.Kind = "try"
				op.Queues = []int{e.Choose("gen", nq, "q")}
			case 3:
				op.Kind = "multi"
				anyMulti = true
				cnt := e.Range("gen", 1, nq+1, "setsize") // may contain a duplicate
				for j := 0; j < cnt; j++ {
					op.Queues = append(op.Queues, e.Choose("gen", nq, "q"))
				}
			}
			op.HoldUS = []int{0, 1, 50, 1000}[e.Choose("gen", 4, "hold")]
			switch e.Choose("gen", 4, "cancel") {
			case 0, 1:
				op.Cancel = "none"
			case 2:
				op.Cancel = "deadline"
				anyCancel = true
			case 3:
				op.Cancel = "canceller"
				anyCancel = true
			}
			op.AfterUS = []int{0, 1, 50, 1000, 1001}[e.Choose("gen", 5, "after")]
			op.Meta = reqmeta.Data{Kind: reqmeta.Kind(e.Choose("gen", 5, "mkind")), Size: int64([]int{0, 100, 5 << 20, 50 << 20}[e.Choose("gen", 4, "msize")])}
			progs[t] = append(progs[t], op)
		}
	}
	sample := map[string]any{"element_type": tname, "limits": limits, "datanext": useDataNext, "programs": progs}
	e.SetCase(fmt.Sprintf("%s|%v|%v|%+v", tname, limits, useDataNext, progs), nt >= 2, sample)

	holders := make([]int, nq)
	e.Sched.OnStep = func() {
		for i := range holders {
			if holders[i] > limits[i] {
				e.Violation("bound", "holders>max", "queue %d has %d holders, max %d", i, holders[i], limits[i])
			}
		}
	}
	finished := 0
	allDone := make(chan struct{})
	for t := range progs {
		t := t
		simrt.Go(func() {
			defer func() {
				finished++
				if finished == nt {
					close(allDone)
				}
			}()
			for _, op := range progs[t] {
				ctx, cancel := context.Background(), context.CancelFunc(func() {})
				switch op.Cancel {
				case "deadline":
					ctx, cancel = context.WithTimeout(ctx, time.Duration(op.AfterUS)*time.Microsecond)
				case "canceller":
					ctx, cancel = context.WithCancel(ctx)
					c, d := cancel, time.Duration(op.AfterUS)*time.Microsecond
					simrt.Go(func() {
						simrt.Sleep(d)
						c()
					})
				}
				var done func()
				var err error
				switch op.Kind {
				case "acquire":
					done, err = qs[op.Queues[0]].Acquire(ctx, mk(op.Meta))
				case "try":
					done, err = qs[op.Queues[0]].TryAcquire(ctx, mk(op.Meta))
				case "multi":
					set := make([]*pqueue.Queue[T], len(op.Queues))
					for i, qi := range op.Queues {
						set[i] = qs[qi]
					}
					var mctx context.Context
					mctx, done, err = pqueue.AcquireMulti(ctx, mk(op.Meta), set...)
					if err == nil && done != nil {
						// the returned context must make nested acquires of a member succeed at once
						d2, err2 := qs[op.Queues[0]].Acquire(mctx, mk(op.Meta))
						if err2 != nil || d2 == nil {
							e.Violation("multi-ctx", "nested-acquire-failed", "Acquire with the AcquireMulti context failed: %v", err2)
						} else {
							d2()
						}
					}
				}
				if err != nil {
					e.Probe("acquire-error")
					if done != nil {
						e.Violation("cancel", "error-with-release-fn", "%s returned an error (%v) together with a release function", op.Kind, err)
					}
					if ctx.Err() == nil {
						e.Violation("cancel", "error-without-cancel", "%s failed with %v although its context is live", op.Kind, err)
					}
					cancel()
					continue
				}
				if done == nil {
					if op.Kind != "try" {
						e.Violation("acquire", "nil-release-fn", "%s returned neither error nor release function", op.Kind)
					}
					e.Probe("try-refused")
					cancel()
					continue
				}
				seen := map[int]bool{}
				for _, qi := range op.Queues {
					if !seen[qi] {
						holders[qi]++
						seen[qi] = true
					}
				}
				if ctx.Err() != nil {
					e.Probe("acquired-after-cancel")
				}
				e.Probe("acquired-" + op.Kind)
				if op.HoldUS > 0 {
					simrt.Sleep(time.Duration(op.HoldUS) * time.Microsecond)
				} else {
					simrt.Yield("hold")
				}
				for qi := range seen {
					holders[qi]--
				}
				done()
				cancel()
			}
		})
	}
	// wait for all workers: poll in simulated time (bounded by the scheduler's
	// deadlock and step limits, which are violations for this property)
	// a worker that never returns leaves every task blocked: the scheduler
	// reports that as a deadlock, which is a violation for this property
	<-allDone
	simrt.Yield("joined")
	if anyCancel {
		e.Probe("with-cancellation")
	}
	if anyMulti {
		e.Probe("with-multi")
	}
	// quiescence: every queue admits exactly max fresh TryAcquires
	for i, q := range qs {
		var rel []func()
		for k := 0; k < limits[i]; k++ {
			d, err := q.TryAcquire(context.Background(), mk(reqmeta.Data{}))
			if err != nil || d == nil {
				e.Violation("slot-lost", "slot-lost", "after all holders finished queue %d (max %d) admits only %d", i, limits[i], k)
				break
			}
			rel = append(rel, d)
		}
		if len(rel) == limits[i] {
			d, _ := q.TryAcquire(context.Background(), mk(reqmeta.Data{}))
			if d != nil {
				e.Violation("bound", "extra-slot", "queue %d (max %d) admits %d", i, limits[i], limits[i]+1)
				d()
			}
		}
		for _, d := range rel {
			d()
		}
	}
}
