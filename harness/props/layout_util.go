package props

import (
	"bytes"
	"context"
	"fmt"

	"github.com/opencontainers/go-digest"

	"github.com/regclient/regclient"
	"github.com/regclient/regclient/internal/verif/gen"
	"github.com/regclient/regclient/types/descriptor"
	"github.com/regclient/regclient/types/manifest"
	"github.com/regclient/regclient/types/ref"
)

func mustRef(s string) ref.Ref {
	r, err := ref.New(s)
	if err != nil {
		panic(fmt.Sprintf("ref %q: %v", s, err))
	}
	return r
}

func nodeManifest(n *gen.Node) (manifest.Manifest, error) {
	return manifest.New(manifest.WithRaw(n.Raw), manifest.WithDesc(descriptor.Descriptor{MediaType: n.MediaType, Digest: digest.Digest(n.Digest), Size: int64(len(n.Raw))}))
}

// pushNode writes a generated manifest with everything below it through the
// client API (blobs first, children before parents), the way a careful user would.
func pushNode(ctx context.Context, rc *regclient.RegClient, base string, n *gen.Node, tag string, child bool) error {
	repoRef := mustRef(base)
	for _, c := range n.Children {
		if err := pushNode(ctx, rc, base, c, "", true); err != nil {
			return err
		}
	}
	for _, b := range append(append([]*gen.Blob{}, n.Blobs...), n.BlobKids...) {
		if !b.Hosted || b.External {
			continue
		}
		d := descriptor.Descriptor{Digest: digest.Digest(b.Desc.Digest), Size: int64(len(b.Data))}
		if _, err := rc.BlobPut(ctx, repoRef, d, bytes.NewReader(b.Data)); err != nil {
			return fmt.Errorf("blob put: %w", err)
		}
	}
	m, err := nodeManifest(n)
	if err != nil {
		return err
	}
	var r ref.Ref
	var opts []regclient.ManifestOpts
	if tag != "" {
		r = repoRef.SetTag(tag)
	} else {
		r = repoRef.SetDigest(n.Digest)
	}
	if child {
		opts = append(opts, regclient.WithManifestChild())
	}
	return rc.ManifestPut(ctx, r, m, opts...)
}

type refT = ref.Ref

func refParse(s string) (ref.Ref, error) { return ref.New(s) }
