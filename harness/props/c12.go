package props

import (
	"bytes"
	"context"
	"errors"
	"fmt"
	"io"
	"net/http"
	"sort"
	"strings"
	"time"

	"github.com/opencontainers/go-digest"
	"github.com/regclient/regclient"
	"github.com/regclient/regclient/config"
	"github.com/regclient/regclient/internal/reghttp"
	"github.com/regclient/regclient/internal/verif/core"
	"github.com/regclient/regclient/internal/verif/gen"
	"github.com/regclient/regclient/internal/verif/oracle"
	"github.com/regclient/regclient/internal/verif/regmodel"
	"github.com/regclient/regclient/internal/verif/simnet"
	"github.com/regclient/regclient/internal/verif/simrt"
	"github.com/regclient/regclient/types/descriptor"
	"github.com/regclient/regclient/types/manifest"
	"github.com/regclient/regclient/types/ref"
)

// C12: bounded retries, recovery from transient faults, writes skip mirrors.
//
// mode A  one logical request through the real internal/reghttp.Client with a
//
//	scripted fault sequence per host (incl. servers that repeat one
//	reply forever): attempts <= limit+1, spacing of attempts to a
//	failing host, Retry-After honoured, termination, mirror order.
//
// mode B  every public operation with fewer transient faults than the limit:
//
//	the result equals the fault-free result; no state-changing request
//	ever reaches a mirror.
//
// mode C  adversarial servers repeating one reply forever on a class of
//
//	requests (upload session, pagination self-loop): the operation
//	must terminate and an upload must not repeat a request without progress.
func init() {
	core.Register(&core.Prop{ID: "C12", Run: runC12, Liveness: true, MaxSteps: 25000, MaxIdle: 2 * time.Hour, NoShrinkStreams: nil})
}

func runC12(e *core.Env) {
	switch e.Choose("gen", 5, "mode") {
	case 0, 1:
		c12A(e)
	case 2, 3:
		c12B(e)
	default:
		c12C(e)
	}
}

// transient alphabet of the statement (what "is absorbed")
var c12Transient = []int{simnet.F500, simnet.F502, simnet.F504, simnet.F408, simnet.F429, simnet.F429RetryAfter, simnet.FConnReset, simnet.FTruncate}

// full alphabet for adversarial scripts
var c12All = []int{simnet.F500, simnet.F502, simnet.F504, simnet.F408, simnet.F429, simnet.F429RetryAfter, simnet.FConnReset, simnet.FTruncate, simnet.F503, simnet.F404, simnet.F416, simnet.F401, simnet.F403}

type c12Host struct {
	Name     string   `json:"name"`
	Priority uint     `json:"priority"`
	Has      bool     `json:"has_content"`
	Script   []string `json:"script"`
	Forever  string   `json:"forever,omitempty"`
	script   []int
	forever  int
}

func backoffClass(kind int) bool {
	switch kind {
	case simnet.F500, simnet.F502, simnet.F504, simnet.F408, simnet.F429, simnet.FConnReset, simnet.FTruncate, simnet.F503, simnet.F403:
		return true
	}
	return false
}

func c12A(e *core.Env) {
	net := simnet.New(e.Tape)
	net.LatMinUS, net.LatMaxUS = 100, 20000
	limit := e.Range("gen", 1, 5, "limit")
	delayInit := []time.Duration{100 * time.Millisecond, 10 * time.Millisecond, time.Second}[e.Choose("gen", 3, "delayInit")]
	delayMax := []time.Duration{0, 50 * time.Millisecond, 30 * time.Second}[e.Choose("gen", 3, "delayMax")]
	nm := e.Choose("gen", 4, "mirrors")
	blobData := gen.New(e.Tape).Graph(gen.Opts{NoReferrers: true, NoDigestTags: true}).Root.Raw
	blobData = append(blobData, bytes.Repeat([]byte("x"), 200)...)
	dig := regmodel.Digest("sha256", blobData)
	hosts := []*c12Host{{Name: "up.test", Priority: uint(e.Choose("gen", 3, "prio"))}}
	for i := 0; i < nm; i++ {
		hosts = append(hosts, &c12Host{Name: fmt.Sprintf("m%d.test", i+1), Priority: uint(e.Choose("gen", 3, "prio"))})
	}
	cfg := map[string]*config.Host{}
	anyForever := false
	withCreds := e.Choose("gen", 3, "creds") == 2
	for _, h := range hosts {
		h.Has = e.Choose("gen", 3, "has") != 2
		g := regmodel.New(h.Name)
		if h.Has {
			g.PutBlob("r", blobData)
		}
		net.Hosts[h.Name] = g
		for k, n := 0, e.Choose("gen", limit+4, "scriptlen"); k < n; k++ {
			// an element may also be "answer normally", so that a host can fail after it has served
			kind := 0
			if k := e.Choose("gen", len(c12All)+4, "kind"); k < len(c12All) {
				kind = c12All[k]
			}
			h.script = append(h.script, kind)
			h.Script = append(h.Script, simnet.FaultNames[kind])
		}
		if e.Choose("gen", 6, "forever") == 5 {
			h.forever = c12All[e.Choose("gen", len(c12All), "fkind")]
			h.Forever = simnet.FaultNames[h.forever]
			anyForever = true
		}
		ch := config.HostNewName(h.Name)
		ch.Priority = h.Priority
		if withCreds {
			ch.User, ch.Pass = "user-"+h.Name, "pass-"+h.Name
		}
		cfg[h.Name] = ch
	}
	for _, h := range hosts[1:] {
		cfg["up.test"].Mirrors = append(cfg["up.test"].Mirrors, h.Name)
	}
	byName := map[string]*c12Host{}
	for _, h := range hosts {
		byName[h.Name] = h
	}
	kindOf := map[int]int{} // exchange seq -> injected kind
	net.Hook = func(x *simnet.Exchange) *simnet.Fault {
		h := byName[x.Host]
		if h == nil {
			return nil
		}
		k := 0
		if len(h.script) > 0 {
			k, h.script = h.script[0], h.script[1:]
		} else if h.forever != 0 {
			k = h.forever
		}
		if k == 0 {
			return nil
		}
		kindOf[x.Seq] = k
		f := &simnet.Fault{Kind: k}
		if k == simnet.FTruncate {
			f.TruncAt = e.Choose("net", 1<<12, "truncAt")
		}
		if k == simnet.F429RetryAfter {
			f.RetrySec = 1 + e.Choose("net", 120, "retryAfter")
		}
		return f
	}
	opts := []reghttp.Opts{reghttp.WithHTTPClient(&http.Client{Transport: net}), reghttp.WithRetryLimit(limit), reghttp.WithDelay(delayInit, delayMax),
		reghttp.WithConfigHostFn(func(name string) *config.Host {
			if h := cfg[name]; h != nil {
				return h
			}
			return config.HostNewName(name)
		})}
	hc := reghttp.NewClient(opts...)
	effMax := delayMax
	if effMax == 0 {
		effMax = delayInit * 30
	} else if effMax < delayInit {
		effMax = delayInit
	}
	// a short sequence of logical requests through one client; a response may be held open
	// while the next request is made (overlapping lifetimes, still one caller)
	nreq := 1 + e.Choose("gen", 4, "nreq")
	type lreq struct {
		Hold    bool `json:"hold_open_during_next"`
		ThinkMS int  `json:"think_ms_before"`
		resp    *reghttp.Resp
		err     error
		got     []byte
		rerr    error
		done    bool
	}
	reqs := make([]*lreq, nreq)
	for i := range reqs {
		reqs[i] = &lreq{Hold: e.Choose("gen", 3, "hold") == 2, ThinkMS: []int{0, 1, 1000, 30000, 200000}[e.Choose("gen", 5, "think")]}
	}
	// one case in six is steered towards a state that uniform drawing rarely reaches: a response of host X is still
	// open when X asks the next request to stay away (429 + Retry-After), the open response is then completed, and
	// further requests follow within the window
	if e.Choose("gen", 6, "rapattern") == 5 {
		x := hosts[e.Choose("gen", len(hosts), "rahost")]
		x.Has = true
		net.Hosts[x.Name].(*regmodel.Reg).PutBlob("r", blobData)
		x.script = append([]int{0, simnet.F429RetryAfter}, x.script...)
		x.Script = append([]string{simnet.FaultNames[0], simnet.FaultNames[simnet.F429RetryAfter]}, x.Script...)
		for len(reqs) < 3 {
			reqs = append(reqs, &lreq{})
		}
		reqs[0].Hold = true
		for i := 1; i < len(reqs); i++ {
			reqs[i].ThinkMS = []int{0, 1, 1000}[e.Choose("gen", 3, "rathink")]
		}
		nreq = len(reqs)
		e.Probe("steered:open-response-while-retry-after")
	}
	sample := map[string]any{"mode": "A: logical GETs through reghttp", "retry_limit": limit, "delay_init": delayInit.String(), "delay_max": effMax.String(), "hosts": hosts, "requests": reqs, "credentials": withCreds}
	e.SetCase(fmt.Sprintf("A|%d|%v|%v|%+v|%d|%v", limit, delayInit, delayMax, hosts, nreq, withCreds), true, sample)
	curReq := -1
	reqOf := map[int]int{}
	net.OnDeliver = nil
	origHook := net.Hook
	net.Hook = func(x *simnet.Exchange) *simnet.Fault {
		reqOf[x.Seq] = curReq
		return origHook(x)
	}
	start := time.Now()
	finish := func(i int) {
		r := reqs[i]
		if r.done || r.err != nil {
			r.done = true
			return
		}
		curReq = i
		r.got, r.rerr = io.ReadAll(r.resp)
		_ = r.resp.Close()
		r.done = true
		simrt.Event("request %d read: err=%v bytes=%d", i, r.rerr, len(r.got))
	}
	var opTimes []time.Duration
	doStart, doEnd := map[int]time.Duration{}, map[int]time.Duration{}
	for i, r := range reqs {
		if r.ThinkMS > 0 {
			simrt.Sleep(time.Duration(r.ThinkMS) * time.Millisecond)
		}
		t0 := time.Now()
		curReq = i
		doStart[i] = e.Sched.Elapsed()
		req := &reghttp.Req{Host: "up.test", Method: "GET", Repository: "r", Path: "blobs/" + dig, ExpectLen: int64(len(blobData))}
		simrt.Event("request %d Do (limit=%d delayInit=%v delayMax=%v)", i, limit, delayInit, effMax)
		r.resp, r.err = hc.Do(context.Background(), req)
		doEnd[i] = e.Sched.Elapsed()
		simrt.Event("request %d Do returned %v", i, r.err)
		if i > 0 && !reqs[i-1].done {
			finish(i - 1)
		}
		if !r.Hold || i == len(reqs)-1 {
			finish(i)
		}
		opTimes = append(opTimes, time.Since(t0))
	}
	elapsed := time.Since(start)
	for k, v := range net.Fired {
		for i := 0; i < v; i++ {
			e.Fault(k)
		}
	}
	// attempts per logical request (first-hop requests only)
	attempts := map[int]int{}
	for _, x := range net.Log {
		if !x.Redirect {
			attempts[reqOf[x.Seq]]++
		}
	}
	for i, n := range attempts {
		if n > limit+1 {
			e.Violation("attempts", "attempts>limit+1", "logical request %d was attempted %d times with retry limit %d", i, n, limit)
		}
		if n == limit+1 {
			e.Probe("attempts==limit+1")
		}
	}
	// spacing of attempts to a failing host / Retry-After, on the per-host timeline of the whole run
	last := map[string]*simnet.Exchange{}
	okCount := map[string]int{}
	failedOther := map[string]bool{} // host had a backoff-class failure other than 429+Retry-After
	type raWin struct {
		until time.Duration
		at    time.Duration
		sec   int
	}
	ra := map[string]*raWin{}
	for _, x := range net.Log {
		if w := ra[x.Host]; w != nil && x.Sent > w.at && x.Sent < w.until-time.Millisecond && !failedOther[x.Host] {
			e.Violation("backoff", "retry-after-ignored", "host %s answered 429 Retry-After %ds at %v, yet a request was sent to it at %v", x.Host, w.sec, w.at, x.Sent)
		}
		if p := last[x.Host]; p != nil {
			pk := kindOf[p.Seq]
			if pk == simnet.F429RetryAfter {
				e.Probe("retry-after-honoured-checked")
			} else if pk == simnet.FTruncate {
				// a truncated body is a failure from the moment the client's read runs into it
				if p.Status >= 200 && p.Status <= 299 && p.BodyErrAt > 0 && x.Sent > p.BodyErrAt && okCount[x.Host] < 6 {
					if x.Sent-p.Sent < delayInit {
						e.Violation("backoff", "no-backoff", "a body from host %s (request sent at %v) broke off at %v, next request to it sent at %v: less than delayInit %v after the failed one", x.Host, p.Sent, p.BodyErrAt, x.Sent, delayInit)
					}
					e.Probe("backoff-spacing-checked")
				}
			} else if backoffClass(pk) && okCount[x.Host] < 6 {
				if x.Sent-p.Sent < delayInit {
					e.Violation("backoff", "no-backoff", "host %s failed (%s) on a request sent at %v, next request to it sent at %v: less than delayInit %v apart", x.Host, simnet.FaultNames[pk], p.Sent, x.Sent, delayInit)
				}
				e.Probe("backoff-spacing-checked")
			}
		}
		k := kindOf[x.Seq]
		if k == simnet.F429RetryAfter {
			sec := 0
			fmt.Sscanf(x.RespHdr.Get("Retry-After"), "%d", &sec)
			until := x.RespAt + time.Duration(sec)*time.Second
			if w := ra[x.Host]; w == nil || until > w.until {
				ra[x.Host] = &raWin{until: until, at: x.RespAt, sec: sec}
			}
		} else if backoffClass(k) && !(k == simnet.FTruncate && (x.Status < 200 || x.Status > 299)) {
			failedOther[x.Host] = true
		}
		if x.Status >= 200 && x.Status < 300 && k == 0 {
			okCount[x.Host]++
		}
		last[x.Host] = x
	}
	// mirror order (ii): a host that asked the client to stay away (429 + Retry-After) and whose window is still
	// open when a logical request starts is visited after every host that has never failed so far
	{
		type win struct{ at, until time.Duration }
		open := map[string]win{}
		firstFail := map[string]time.Duration{}
		visited := map[int]map[string]bool{}
		for _, x := range net.Log {
			i := reqOf[x.Seq]
			if visited[i] == nil {
				visited[i] = map[string]bool{}
			}
			if !x.Redirect && !visited[i][x.Host] {
				// (only visits made by the Do call itself: a later resume of a broken body sorts the hosts afresh)
				if w, ok := open[x.Host]; ok && w.at < doStart[i] && doStart[i] < w.until-time.Millisecond && x.Sent <= doEnd[i] {
					for _, y := range hosts {
						if y.Name == x.Host || visited[i][y.Name] {
							continue
						}
						if ff, failed := firstFail[y.Name]; !failed || ff > doStart[i] {
							e.Violation("mirror-order", "backing-off-host-before-idle-host", "logical request %d started at %v, inside the Retry-After window of %s (until %v), and visited it before %s, which had never failed", i, doStart[i], x.Host, w.until, y.Name)
							break
						}
					}
					e.Probe("backing-off-order-checked")
				}
				visited[i][x.Host] = true
			}
			k := kindOf[x.Seq]
			if k == simnet.F429RetryAfter {
				sec := 0
				fmt.Sscanf(x.RespHdr.Get("Retry-After"), "%d", &sec)
				until := x.RespAt + time.Duration(sec)*time.Second
				if w, ok := open[x.Host]; !ok || until > w.until {
					open[x.Host] = win{at: x.RespAt, until: until}
				}
			}
			if k != 0 || !(x.Status >= 200 && x.Status < 300 || x.Status == 404) {
				if _, ok := firstFail[x.Host]; !ok {
					firstFail[x.Host] = x.Sent
				}
			}
		}
	}
	// falling back: within one logical request a host that has just failed with a retryable status is not asked
	// again while a host that has never failed has not been asked at all
	{
		firstFail := map[string]bool{}
		visited := map[int]map[string]bool{}
		lastOf := map[int]*simnet.Exchange{}
		for _, x := range net.Log {
			if x.Redirect {
				continue
			}
			i := reqOf[x.Seq]
			if visited[i] == nil {
				visited[i] = map[string]bool{}
			}
			if p := lastOf[i]; p != nil && p.Host == x.Host && x.Sent <= doEnd[i] {
				switch kindOf[p.Seq] {
				case simnet.F500, simnet.F502, simnet.F503, simnet.F504, simnet.F408, simnet.F429:
					for _, y := range hosts {
						if y.Name != x.Host && !visited[i][y.Name] && !firstFail[y.Name] {
							e.Violation("fallback", "failed-host-retried-before-untried-host", "logical request %d: %s answered %s and was asked again at once, although %s had not been asked and had never failed", i, x.Host, simnet.FaultNames[kindOf[p.Seq]], y.Name)
							break
						}
					}
					e.Probe("same-host-retry-checked")
				}
			}
			visited[i][x.Host] = true
			lastOf[i] = x
			if k := kindOf[x.Seq]; k != 0 || !(x.Status >= 200 && x.Status < 300 || x.Status == 404) {
				firstFail[x.Host] = true
			}
		}
	}
	// termination within a budget derived from the configuration (liveness; also under forever-repeating servers)
	budget := time.Duration(limit+2)*(effMax+121*time.Second) + time.Minute
	for i, d := range opTimes {
		if d > budget {
			e.Violation("liveness", "slow-termination", "logical request %d took %v of simulated time, budget %v", i, d, budget)
		}
	}
	_ = elapsed
	if anyForever {
		e.Probe("forever-repeating-server")
	}
	if nreq > 1 {
		e.Probe("several-logical-requests")
	}
	// data integrity of what was delivered on success
	for i, r := range reqs {
		if r.err == nil && r.rerr == nil && !bytes.Equal(r.got, blobData) {
			e.Violation("result", "wrong-bytes", "request %d completed without error but delivered %d bytes that differ from the blob (%d bytes)", i, len(r.got), len(blobData))
		}
		if r.err == nil && r.rerr == nil {
			e.Probe("request-succeeded")
		} else {
			e.Probe("request-failed")
		}
	}
	// mirror order (i): the first visit of each host, with every host idle at the start
	var order []string
	seen := map[string]bool{}
	for _, x := range net.Log {
		if reqOf[x.Seq] != 0 {
			break
		}
		if !seen[x.Host] {
			seen[x.Host] = true
			order = append(order, x.Host)
		}
	}
	if len(order) > 1 {
		e.Probe("visited-several-hosts")
		for i := 1; i < len(order); i++ {
			a, b := byName[order[i-1]], byName[order[i]]
			// b was first visited after a: a must not rank below b
			if a.Priority < b.Priority {
				e.Violation("mirror-order", "priority-ascending", "hosts were first visited in the order %v; %s (priority %d) before %s (priority %d): not descending", order, a.Name, a.Priority, b.Name, b.Priority)
				break
			}
			if a.Priority == b.Priority && a.Name == "up.test" {
				e.Violation("mirror-order", "upstream-not-last", "hosts were first visited in the order %v; the named registry came before mirror %s of equal priority", order, b.Name)
				break
			}
		}
	}
	_ = sort.Strings
}

// ---- mode B: public operations absorb fewer transient faults than the limit

func c12B(e *core.Env) {
	w := newWorld(e)
	w.Concurrent = 3
	limit := []int{2, 3, 5}[e.Choose("gen", 3, "limit")]
	w.RetryLimit = limit
	w.DelayInit, w.DelayMax = 10*time.Millisecond, 500*time.Millisecond
	if e.Choose("gen", 2, "delay") == 1 {
		w.DelayInit, w.DelayMax = 100*time.Millisecond, 30*time.Second
	}
	up := w.AddReg("up.test")
	up.K.Referrers = e.Choose("gen", 2, "refapi") == 0
	up.K.TagPage = []int{0, 1, 2}[e.Choose("gen", 3, "tagpage")]
	up.K.ReferrersPage = []int{0, 1}[e.Choose("gen", 2, "refpage")]
	up.K.TagDelete = e.Choose("gen", 2, "tagdel") == 0
	g := gen.New(e.Tape)
	g.MaxBlob = 300
	gr := g.Graph(gen.Opts{})
	gr.Install(up, "proj/app", "v1")
	up.Repo("proj/app").Tags["v0"] = gr.Root.Digest
	up.Repo("proj/app").Tags["zz"] = gr.Root.Digest
	// mirrors hold the same content (read-only), or lack it
	nm := e.Choose("gen", 3, "mirrors")
	mirrors := map[string]*regmodel.Reg{}
	for i := 0; i < nm; i++ {
		name := fmt.Sprintf("m%d.test", i+1)
		m := w.AddReg(name)
		m.K = up.K
		if e.Choose("gen", 3, "mirrorhas") != 2 {
			gr.Install(m, "proj/app", "v1")
			m.Repo("proj/app").Tags["v0"] = gr.Root.Digest
			m.Repo("proj/app").Tags["zz"] = gr.Root.Digest
		}
		mirrors[name] = m
		w.Host(name).Priority = uint(e.Choose("gen", 3, "prio"))
		w.Host("up.test").Mirrors = append(w.Host("up.test").Mirrors, name)
	}
	tgt := w.AddReg("tgt.test")
	tgt.K = up.K
	// fault plan: K < limit transient faults, at tape-chosen request positions of the operation
	k := e.Range("net", 0, limit-1, "nfaults")
	faultAt := map[int]int{}
	for i := 0; i < k; i++ {
		faultAt[1+e.Choose("net", 12, "pos")] = c12Transient[e.Choose("net", len(c12Transient), "kind")]
	}
	elig := 0
	w.Net.Hook = func(x *simnet.Exchange) *simnet.Fault {
		elig++
		kind, ok := faultAt[elig]
		if !ok {
			return nil
		}
		f := &simnet.Fault{Kind: kind}
		if kind == simnet.FTruncate {
			f.TruncAt = e.Choose("net", 1<<12, "truncAt")
		}
		if kind == simnet.F429RetryAfter {
			f.RetrySec = 1 + e.Choose("net", 30, "retryAfter")
		}
		return f
	}
	rc := w.Client()
	ctx := context.Background()
	mkref := func(s string) ref.Ref {
		r, err := ref.New(s)
		if err != nil {
			panic(err)
		}
		return r
	}
	srcS := oracle.RegStore{Reg: up, Repo: "proj/app"}
	op := e.Choose("gen", 12, "op")
	opNames := []string{"manifest-get", "manifest-head", "blob-get", "blob-head", "tag-list", "referrer-list", "manifest-put", "blob-put", "tag-delete", "manifest-delete", "image-copy", "blob-delete"}
	var plan []string
	var pos []int
	for p := range faultAt {
		pos = append(pos, p)
	}
	sort.Ints(pos)
	for _, p := range pos {
		plan = append(plan, fmt.Sprintf("#%d:%s", p, simnet.FaultNames[faultAt[p]]))
	}
	sample := map[string]any{"mode": "B: public operation with fewer transient faults than the retry limit", "op": opNames[op], "retry_limit": limit, "fault_plan": plan, "mirrors": nm, "image": gr.Describe(), "features": fmt.Sprintf("%+v", up.K)}
	e.SetCase(fmt.Sprintf("B|%s|%d|%v|%d|%s|%+v", opNames[op], limit, plan, nm, gr.Root.Digest, up.K), true, sample)
	simrt.Event("op %s limit=%d plan=%v", opNames[op], limit, plan)
	fail := func(format string, a ...any) {
		// the fingerprint separates failures in which mirrors took part in the operation (the retry
		// budget of one logical request is shared by all of its hosts) from failures without any mirror
		fp := "not-absorbed:" + opNames[op]
		for _, x := range w.Net.Log {
			if _, isMirror := mirrors[x.Host]; isMirror {
				fp = "not-absorbed-retry-budget-shared-with-mirrors"
				break
			}
		}
		e.Violation("absorb", fp, "with %d transient fault(s) %v and retry limit %d: "+format, append([]any{len(faultAt), plan, limit}, a...)...)
	}
	// a hosted layer blob of the image
	var someBlob *gen.Blob
	for _, n := range gr.AllNodes() {
		for _, b := range n.Blobs {
			if b.Hosted && !b.External && someBlob == nil {
				someBlob = b
			}
		}
	}
	bd := descriptor.Descriptor{Digest: digest.Digest(someBlob.Desc.Digest), Size: int64(len(someBlob.Data))}
	var err error
	switch opNames[op] {
	case "manifest-get":
		var m manifest.Manifest
		m, err = rc.ManifestGet(ctx, mkref("up.test/proj/app:v1"))
		if err == nil {
			raw, _ := m.RawBody()
			if !bytes.Equal(raw, gr.Root.Raw) {
				fail("ManifestGet returned different bytes")
			}
		}
	case "manifest-head":
		var m manifest.Manifest
		m, err = rc.ManifestHead(ctx, mkref("up.test/proj/app:v1"))
		if err == nil && m.GetDescriptor().Digest.String() != gr.Root.Digest {
			fail("ManifestHead returned digest %s", m.GetDescriptor().Digest)
		}
	case "blob-get":
		rdr, gerr := rc.BlobGet(ctx, mkref("up.test/proj/app"), bd)
		err = gerr
		if err == nil {
			got, rerr := io.ReadAll(rdr)
			_ = rdr.Close()
			err = rerr
			if err == nil && !bytes.Equal(got, someBlob.Data) {
				fail("BlobGet delivered different bytes")
			}
		}
	case "blob-head":
		rdr, herr := rc.BlobHead(ctx, mkref("up.test/proj/app"), bd)
		err = herr
		if err == nil {
			_ = rdr.Close()
		}
	case "tag-list":
		tl, lerr := rc.TagList(ctx, mkref("up.test/proj/app"))
		err = lerr
		if err == nil {
			tags, _ := tl.GetTags()
			sort.Strings(tags)
			want := srcS.Tags()
			if strings.Join(tags, ",") != strings.Join(want, ",") {
				fail("TagList returned %v, want %v", tags, want)
			}
		}
	case "referrer-list":
		subj := gr.Root.Digest
		rl, lerr := rc.ReferrerList(ctx, mkref("up.test/proj/app@"+subj))
		err = lerr
		if err == nil {
			var got []string
			for _, d := range rl.Descriptors {
				got = append(got, d.Digest.String())
			}
			sort.Strings(got)
			want := srcS.ReferrersOf(subj)
			sort.Strings(want)
			if strings.Join(got, ",") != strings.Join(want, ",") {
				fail("ReferrerList returned %d referrers %v, want %d %v", len(got), shortAll(got), len(want), shortAll(want))
			}
			if len(want) > 0 {
				e.Probe("referrer-list-nonempty")
			}
		}
	case "manifest-put":
		m, merr := manifest.New(manifest.WithRaw(gr.Root.Raw), manifest.WithDesc(descriptor.Descriptor{MediaType: gr.Root.MediaType, Digest: digest.Digest(gr.Root.Digest), Size: int64(len(gr.Root.Raw))}))
		if merr != nil {
			e.Infra("manifest.New: %v", merr)
			return
		}
		err = rc.ManifestPut(ctx, mkref("tgt.test/new/repo:t1"), m)
		if err == nil {
			if d, ok := (oracle.RegStore{Reg: tgt, Repo: "new/repo"}).Tag("t1"); !ok || d != gr.Root.Digest {
				fail("ManifestPut returned nil but tag resolves to %q", d)
			}
		}
	case "blob-put":
		data := bytes.Repeat([]byte("blob-put-data-"), 1+e.Choose("gen", 40, "putsize"))
		d := descriptor.Descriptor{Digest: digest.FromBytes(data), Size: int64(len(data))}
		if e.Choose("gen", 3, "nodesc") == 2 {
			d = descriptor.Descriptor{}
		}
		var dOut descriptor.Descriptor
		dOut, err = rc.BlobPut(ctx, mkref("tgt.test/new/repo"), d, bytes.NewReader(data))
		if err == nil {
			got, ok := (oracle.RegStore{Reg: tgt, Repo: "new/repo"}).Blob(dOut.Digest.String())
			if !ok || !bytes.Equal(got, data) {
				fail("BlobPut returned nil but the blob is not stored correctly")
			}
		}
	case "tag-delete":
		err = rc.TagDelete(ctx, mkref("up.test/proj/app:zz"))
		if err == nil {
			if _, ok := srcS.Tag("zz"); ok {
				fail("TagDelete returned nil but the tag is still there")
			}
			if d, _ := srcS.Tag("v1"); d != gr.Root.Digest {
				fail("TagDelete of zz changed v1")
			}
		}
	case "manifest-delete":
		// delete an untagged child or referrer so that nothing else is affected
		var victim string
		for _, n := range gr.AllNodes() {
			if n != gr.Root {
				victim = n.Digest
			}
		}
		if victim == "" {
			victim = gr.Root.Digest
		}
		err = rc.ManifestDelete(ctx, mkref("up.test/proj/app@"+victim))
		if err == nil {
			if _, _, ok := srcS.Manifest(victim); ok {
				fail("ManifestDelete returned nil but the manifest is still there")
			}
		}
	case "blob-delete":
		// a blob nothing refers to (also held by the mirrors, which must not be asked to delete it)
		up.K.DeleteBlob = true
		orphan := []byte("a blob nothing refers to")
		od := up.PutBlob("proj/app", orphan)
		for _, m := range mirrors {
			m.K.DeleteBlob = true
			m.PutBlob("proj/app", orphan)
		}
		err = rc.BlobDelete(ctx, mkref("up.test/proj/app"), descriptor.Descriptor{Digest: digest.Digest(od), Size: int64(len(orphan))})
		if err == nil {
			if _, ok := srcS.Blob(od); ok {
				fail("BlobDelete returned nil but the blob is still there")
			}
		}
	case "image-copy":
		err = rc.ImageCopy(ctx, mkref("up.test/proj/app:v1"), mkref("tgt.test/mirror/app:v1"))
		drainTasks(e, 20)
		if err == nil {
			needs, _, _ := oracle.Closure(srcS, gr.Root.Digest, oracle.WalkOpts{})
			if miss := oracle.CheckPresent(srcS, oracle.RegStore{Reg: tgt, Repo: "mirror/app"}, needs); len(miss) > 0 {
				fail("ImageCopy returned nil but %s", strings.Join(miss, "; "))
			}
		}
	}
	simrt.Event("op returned %v", err)
	fired := 0
	for kname, v := range w.Net.Fired {
		fired += v
		for i := 0; i < v; i++ {
			e.Fault(kname)
		}
	}
	if err != nil {
		if fired < limit {
			fail("operation failed: %v", err)
		}
	} else {
		e.Probe("op-ok:" + opNames[op])
		if fired > 0 {
			e.Probe("absorbed-faults")
		}
	}
	// every state-changing request goes only to the registry named in the reference
	for _, x := range w.Net.Log {
		if simnet.IsWrite(x.Method) {
			if _, isMirror := mirrors[x.Host]; isMirror {
				e.Violation("mirror-write", "write-to-mirror:"+x.Method, "request #%d %s %s%s was sent to mirror %s during %s", x.Seq, x.Method, x.Host, x.Path, x.Host, opNames[op])
			}
		}
		if _, isMirror := mirrors[x.Host]; isMirror {
			e.Probe("mirror-visited")
		}
	}
	_ = errors.Is
	_ = regclient.DefaultUserAgent
}

func shortAll(ds []string) []string {
	var out []string
	for _, d := range ds {
		out = append(out, short(d))
	}
	return out
}

// ---- mode C: adversarial servers that repeat one reply forever

type foreverHost struct {
	inner   simnet.Host
	match   func(req *simnet.Request) bool
	reply   func(req *simnet.Request) *simnet.Response
	Matched int
}

func (f *foreverHost) Serve(req *simnet.Request) *simnet.Response {
	if f.match(req) {
		f.Matched++
		return f.reply(req)
	}
	return f.inner.Serve(req)
}

func c12C(e *core.Env) {
	w := newWorld(e)
	w.RetryLimit = []int{0, 2, 3}[e.Choose("gen", 3, "limit")]
	w.DelayInit, w.DelayMax = 10*time.Millisecond, time.Second
	w.Chunk, w.MaxPut = 32, 64
	up := w.AddReg("up.test")
	g := gen.New(e.Tape)
	gr := g.Graph(gen.Opts{})
	gr.Install(up, "proj/app", "v1")
	for i := 0; i < 3; i++ {
		up.Repo("proj/app").Tags[fmt.Sprintf("t%d", i)] = gr.Root.Digest
	}
	up.K.TagPage = 2
	up.K.ReferrersPage = 1
	scen := e.Choose("gen", 8, "scenario")
	names := []string{"upload-patch-4xx-location-range-forever", "upload-patch-5xx-forever", "taglist-next-link-self-loop", "referrers-next-link-self-loop", "upload-status-forever-stale", "blob-get-truncate-forever", "upload-patch-202-without-progress-forever", "upload-patch-reply-cycle-forever"}
	fh := &foreverHost{inner: up}
	status := []int{416, 400, 409, 404}[e.Choose("gen", 4, "status")]
	switch names[scen] {
	case "upload-patch-4xx-location-range-forever":
		fh.match = func(r *simnet.Request) bool { return r.Method == "PATCH" }
		fh.reply = func(r *simnet.Request) *simnet.Response {
			rs := simnet.NewResponse(status)
			rs.Header.Set("Location", r.Path)
			rs.Header.Set("Range", "0-0")
			return rs
		}
	case "upload-patch-5xx-forever":
		fh.match = func(r *simnet.Request) bool { return r.Method == "PATCH" }
		fh.reply = func(r *simnet.Request) *simnet.Response { return simnet.NewResponse(500) }
	case "upload-patch-202-without-progress-forever":
		// every chunk is "accepted" (202) but the announced range never grows beyond the first byte
		fh.match = func(r *simnet.Request) bool { return r.Method == "PATCH" }
		fh.reply = func(r *simnet.Request) *simnet.Response {
			rs := simnet.NewResponse(202)
			rs.Header.Set("Location", r.Path)
			rs.Header.Set("Range", "0-0")
			return rs
		}
	case "upload-patch-reply-cycle-forever":
		// the server cycles through two or three replies to a chunk, none of which ever stores a byte beyond
		// the range it announces: whatever the mixture, the session cannot make progress and has to end
		type rep struct{ status, rangeEnd int }
		var cyc []rep
		var desc []string
		for i, n := 0, 2+e.Choose("gen", 2, "cycleLen"); i < n; i++ {
			st := []int{202, 416, 400, 500, 202, 416}[e.Choose("gen", 6, "cycleStatus")]
			re := []int{0, 0, 15, 31}[e.Choose("gen", 4, "cycleRange")]
			cyc = append(cyc, rep{st, re})
			desc = append(desc, fmt.Sprintf("%d/0-%d", st, re))
		}
		simrt.Event("reply cycle %s", strings.Join(desc, ","))
		fh.match = func(r *simnet.Request) bool { return r.Method == "PATCH" }
		fh.reply = func(r *simnet.Request) *simnet.Response {
			c := cyc[(fh.Matched-1)%len(cyc)]
			rs := simnet.NewResponse(c.status)
			if c.status != 500 {
				rs.Header.Set("Location", r.Path)
				rs.Header.Set("Range", fmt.Sprintf("0-%d", c.rangeEnd))
			}
			return rs
		}
	case "taglist-next-link-self-loop":
		fh.match = func(r *simnet.Request) bool { return strings.HasSuffix(r.Path, "/tags/list") }
		fh.reply = func(r *simnet.Request) *simnet.Response {
			rs := up.Serve(r)
			q := r.Query
			if q != "" {
				q = "?" + q
			}
			rs.Header.Set("Link", "<"+r.Path+q+">; rel=\"next\"")
			return rs
		}
	case "referrers-next-link-self-loop":
		fh.match = func(r *simnet.Request) bool { return strings.Contains(r.Path, "/referrers/") }
		fh.reply = func(r *simnet.Request) *simnet.Response {
			rs := up.Serve(r)
			q := r.Query
			if q != "" {
				q = "?" + q
			}
			rs.Header.Set("Link", "<"+r.Path+q+">; rel=\"next\"")
			return rs
		}
	case "upload-status-forever-stale":
		fh.match = func(r *simnet.Request) bool {
			return r.Method == "PATCH" || (r.Method == "GET" && strings.Contains(r.Path, "/uploads/"))
		}
		fh.reply = func(r *simnet.Request) *simnet.Response {
			if r.Method == "PATCH" {
				return simnet.NewResponse(500)
			}
			rs := simnet.NewResponse(204)
			rs.Header.Set("Location", r.Path)
			rs.Header.Set("Range", "0-0")
			return rs
		}
	case "blob-get-truncate-forever":
		fh.match = func(r *simnet.Request) bool { return false }
		w.Net.Hook = func(x *simnet.Exchange) *simnet.Fault {
			if x.Method == "GET" && strings.Contains(x.Path, "/blobs/sha") {
				return &simnet.Fault{Kind: simnet.FTruncate, TruncAt: e.Choose("net", 64, "truncAt")}
			}
			return nil
		}
	}
	w.Net.Hosts["up.test"] = fh
	rc := w.Client()
	ctx := context.Background()
	mk := func(s string) ref.Ref { r, _ := ref.New(s); return r }
	e.SetCase(fmt.Sprintf("C|%s|%d|%d|%s", names[scen], status, w.RetryLimit, gr.Root.Digest), true, map[string]any{"mode": "C: server repeats one reply forever", "scenario": names[scen], "status": status, "retry_limit": w.RetryLimit})
	simrt.Event("scenario %s status=%d", names[scen], status)
	e.Probe("scenario:" + names[scen])
	start := time.Now()
	var err error
	switch names[scen] {
	case "upload-patch-4xx-location-range-forever", "upload-patch-5xx-forever", "upload-status-forever-stale", "upload-patch-202-without-progress-forever", "upload-patch-reply-cycle-forever":
		data := bytes.Repeat([]byte("0123456789abcdef"), 10) // 160 bytes > max put 64: chunked
		_, err = rc.BlobPut(ctx, mk("up.test/proj/new"), descriptor.Descriptor{Digest: digest.FromBytes(data), Size: int64(len(data))}, bytes.NewReader(data))
	case "taglist-next-link-self-loop":
		_, err = rc.TagList(ctx, mk("up.test/proj/app"))
	case "referrers-next-link-self-loop":
		_, err = rc.ReferrerList(ctx, mk("up.test/proj/app@"+gr.Root.Digest))
	case "blob-get-truncate-forever":
		var b *gen.Blob
		for _, n := range gr.AllNodes() {
			for _, x := range n.Blobs {
				if x.Hosted && !x.External && len(x.Data) > 2 && b == nil {
					b = x
				}
			}
		}
		if b == nil {
			e.Probe("no-blob-large-enough")
			return
		}
		rdr, gerr := rc.BlobGet(ctx, mk("up.test/proj/app"), descriptor.Descriptor{Digest: digest.Digest(b.Desc.Digest), Size: int64(len(b.Data))})
		err = gerr
		if err == nil {
			_, err = io.ReadAll(rdr)
			_ = rdr.Close()
		}
	}
	el := time.Since(start)
	simrt.Event("operation returned %v after %v, %d requests", err, el, len(w.Net.Log))
	// termination is checked by the scheduler (step limit / deadlock are violations for this property)
	// an upload session never repeats a request without making progress: identical URL and Content-Range
	rep := map[string]int{}
	for _, x := range w.Net.Log {
		if x.Method == "PATCH" {
			key := x.Path + "?" + x.Query + " " + x.ReqHeader.Get("Content-Range")
			rep[key]++
		}
	}
	for k, n := range rep {
		// the client's own bound is 10 status-driven retries; anything far beyond the retry limit is a loop
		if n > 25 {
			e.Violation("upload-progress", "upload-repeats-without-progress", "upload request %s was sent %d times", k, n)
		}
	}
	if len(w.Net.Log) > 400 {
		e.Violation("liveness", "unbounded-requests:"+names[scen], "operation issued %d requests against a server repeating one reply (%s)", len(w.Net.Log), names[scen])
	}
}
