package props

import (
	"bytes"
	"context"
	"errors"
	"fmt"
	"sort"
	"strings"

	"github.com/opencontainers/go-digest"

	"github.com/regclient/regclient"
	"github.com/regclient/regclient/internal/verif/core"
	"github.com/regclient/regclient/internal/verif/gen"
	"github.com/regclient/regclient/internal/verif/oracle"
	"github.com/regclient/regclient/internal/verif/regmodel"
	"github.com/regclient/regclient/internal/verif/simos"
	"github.com/regclient/regclient/internal/verif/simrt"
	"github.com/regclient/regclient/types/descriptor"
	"github.com/regclient/regclient/types/errs"
)

// C07: an OCI layout survives a crash at any point of any write.
//
// Base run: history + operation without a crash; counts the mutating
// file-system calls M of the operation. Positional runs: the same seed with
// the disk frozen at mutating call k (k = 1..M; for writes additionally a
// torn prefix). Then the directory is audited by an independent checker and
// by a fresh client, and the operation is repeated.
func init() {
	core.Register(&core.Prop{ID: "C07", Run: runC07, Plan: planC07, MaxSteps: 200000})
}

func planC07(base *core.Result, tier string, budget int, rng func(int) int) []core.Params {
	m := base.Info["muts"]
	var all []core.Params
	for k := 1; k <= m; k++ {
		all = append(all, core.Params{"crash_at": k})
		if base.Info[fmt.Sprintf("w%d", k)] == 1 {
			for torn := 1; torn <= 3; torn++ {
				all = append(all, core.Params{"crash_at": k, "torn": torn})
			}
		}
	}
	if budget > 0 && len(all) > budget {
		for i := 0; i < budget; i++ {
			j := i + rng(len(all)-i)
			all[i], all[j] = all[j], all[i]
		}
		all = all[:budget]
		all[0]["_partial"] = 1
	}
	return all
}

var c07Ops = []string{"blob-put", "push-tagged", "push-untagged", "push-child-then-index", "push-with-subject", "tag-delete", "manifest-delete", "close-gc", "image-copy", "image-import",
	"blob-delete", "image-copy-referrers", "concurrent-copies", "concurrent-push-and-delete"}

func runC07(e *core.Env) {
	ctx := context.Background()
	dir := e.TempDir()
	base := "ocidir://" + dir
	disk := &simos.Disk{Root: dir, Quiet: true}
	simos.Use(disk)
	defer simos.Use(nil)
	g := gen.New(e.Tape)
	g.MaxBlob = 120
	g.NoExt = true
	populated := e.Choose("gen", 4, "populated") != 0
	rc := regclient.New()
	imgA := g.Graph(gen.Opts{NoReferrers: true, NoDigestTags: true, NoExternal: true})
	imgB := g.Image(false)
	var refA *gen.Node
	if populated {
		if err := pushNode(ctx, rc, base, imgA.Root, "a", false); err != nil {
			e.Infra("pre-state push a: %v", err)
			return
		}
		if err := pushNode(ctx, rc, base, imgB, "b", false); err != nil {
			e.Infra("pre-state push b: %v", err)
			return
		}
		if e.Choose("gen", 3, "preref") == 1 {
			refA = g.Artifact(imgA.Root, "application/vnd.example.sig")
			if err := pushNode(ctx, rc, base, refA, "", false); err != nil {
				e.Infra("pre-state push referrer: %v", err)
				return
			}
		}
		// a second tag sharing b's manifest
		if e.Choose("gen", 2, "shared") == 1 {
			mb, _ := nodeManifest(imgB)
			if err := rc.ManifestPut(ctx, mustRef(base+":b2"), mb); err != nil {
				e.Infra("pre-state tag b2: %v", err)
				return
			}
		}
	}
	st := oracle.LayoutStore{Dir: dir}
	preTags := oracle.TagSnapshot(dir)
	// the operation under test
	op := c07Ops[e.Choose("gen", len(c07Ops), "op")]
	if !populated && (op == "tag-delete" || op == "manifest-delete" || op == "close-gc" || op == "push-with-subject" || op == "concurrent-push-and-delete") {
		op = "push-tagged"
	}
	// (blob-typed index entries and schema1 / OCI artifact manifests are C09's business: export and
	// import of those shapes is decided there, the import operation is exercised without them here)
	newImg := g.Graph(gen.Opts{NoReferrers: true, NoDigestTags: true, NoExternal: true, NoBlobKids: op == "image-import", NoLegacy: op == "image-import"})
	tgtTag := "new"
	if populated && e.Choose("gen", 3, "overwrite") == 1 {
		tgtTag = "a"
	}
	targets := map[string]bool{} // tags the operation is allowed to change
	var run func(rc *regclient.RegClient) error
	var intended func() []string
	present := func(d string, tag string) []string {
		var out []string
		if tag != "" {
			if got, _ := st.Tag(tag); got != d {
				out = append(out, fmt.Sprintf("tag %s resolves to %q, want %s", tag, short(got), short(d)))
			}
		}
		out = append(out, oracle.ImageComplete(st, d, oracle.WalkOpts{})...)
		return out
	}
	// a registry holding newImg for copy, a tar for import (prepared before the crash window)
	var tarBytes []byte
	var w *World
	switch op {
	case "blob-put":
		data := bytes.Repeat([]byte("c07-blob-"), 1+e.Choose("gen", 30, "n"))
		d := descriptor.Descriptor{Digest: digest.FromBytes(data), Size: int64(len(data))}
		if e.Choose("gen", 3, "nodesc") == 1 {
			d = descriptor.Descriptor{}
		}
		run = func(rc *regclient.RegClient) error {
			_, err := rc.BlobPut(ctx, mustRef(base), d, bytes.NewReader(data))
			return err
		}
		intended = func() []string {
			b, ok := st.Blob(digest.FromBytes(data).String())
			if !ok || !bytes.Equal(b, data) {
				return []string{"the blob is not stored"}
			}
			return nil
		}
	case "push-tagged":
		targets[tgtTag] = true
		run = func(rc *regclient.RegClient) error { return pushNode(ctx, rc, base, newImg.Root, tgtTag, false) }
		intended = func() []string { return present(newImg.Root.Digest, tgtTag) }
	case "push-untagged":
		run = func(rc *regclient.RegClient) error { return pushNode(ctx, rc, base, newImg.Root, "", false) }
		intended = func() []string { return present(newImg.Root.Digest, "") }
	case "push-child-then-index":
		targets[tgtTag] = true
		kids := []*gen.Node{g.Image(false), g.Image(false)}
		ix := g.Index(false, kids, nil)
		run = func(rc *regclient.RegClient) error { return pushNode(ctx, rc, base, ix, tgtTag, false) }
		intended = func() []string { return present(ix.Digest, tgtTag) }
	case "push-with-subject":
		art := g.Artifact(imgA.Root, "application/vnd.example.sbom")
		targets[regmodel.FallbackTag(imgA.Root.Digest)] = true
		run = func(rc *regclient.RegClient) error { return pushNode(ctx, rc, base, art, "", false) }
		intended = func() []string {
			out := present(art.Digest, "")
			found := false
			for _, d := range st.ReferrersOf(imgA.Root.Digest) {
				if d == art.Digest {
					found = true
				}
			}
			if !found {
				out = append(out, "the new referrer is not listed for its subject")
			}
			if refA != nil {
				ok := false
				for _, d := range st.ReferrersOf(imgA.Root.Digest) {
					if d == refA.Digest {
						ok = true
					}
				}
				if !ok {
					out = append(out, "the referrer that existed before is no longer listed")
				}
			}
			return out
		}
	case "tag-delete":
		targets["b"] = true
		run = func(rc *regclient.RegClient) error { return rc.TagDelete(ctx, mustRef(base+":b")) }
		intended = func() []string {
			if _, ok := st.Tag("b"); ok {
				return []string{"tag b still present"}
			}
			return nil
		}
	case "manifest-delete":
		for t, d := range preTags {
			if d == imgB.Digest {
				targets[t] = true
			}
		}
		withCheck := e.Choose("gen", 2, "refcheck") == 1
		run = func(rc *regclient.RegClient) error {
			var o []regclient.ManifestOpts
			if withCheck {
				o = append(o, regclient.WithManifestCheckReferrers())
			}
			return rc.ManifestDelete(ctx, mustRef(base+"@"+imgB.Digest), o...)
		}
		intended = func() []string {
			var out []string
			if _, _, ok := st.Manifest(imgB.Digest); ok {
				out = append(out, "manifest still present")
			}
			for _, t := range st.Tags() {
				if d, _ := st.Tag(t); d == imgB.Digest {
					out = append(out, "tag "+t+" still points at the deleted manifest")
				}
			}
			return out
		}
	case "close-gc":
		// make something unreachable first (not part of the crash window), then collect
		targets["b"] = true
		targets["b2"] = true
		if err := rc.TagDelete(ctx, mustRef(base+":b")); err != nil {
			e.Infra("pre tag delete: %v", err)
			return
		}
		if _, ok := preTags["b2"]; ok {
			_ = rc.TagDelete(ctx, mustRef(base+":b2"))
		}
		preTags = oracle.TagSnapshot(dir)
		run = func(c *regclient.RegClient) error {
			if c != rc {
				// after a restart the new process only collects when it modified the layout; repeating
				// "close" alone is a no-op, which is fine: the intended state demands nothing of garbage
				return c.Close(ctx, mustRef(base))
			}
			return rc.Close(ctx, mustRef(base))
		}
		intended = func() []string { return nil }
	case "image-copy":
		targets[tgtTag] = true
		w = newWorld(e)
		src := w.AddReg("src.test")
		src.K.Referrers = e.Choose("gen", 2, "refapi") == 0
		newImg.Install(src, "proj/app", "v1")
		run = func(c *regclient.RegClient) error {
			return c.ImageCopy(ctx, mustRef("src.test/proj/app:v1"), mustRef(base+":"+tgtTag))
		}
		intended = func() []string { return present(newImg.Root.Digest, tgtTag) }
	case "blob-delete":
		// a blob nothing refers to, stored earlier, removed through the scheme's blob delete
		data := bytes.Repeat([]byte("c07-stray-"), 1+e.Choose("gen", 30, "n"))
		dg := digest.FromBytes(data)
		if _, err := rc.BlobPut(ctx, mustRef(base), descriptor.Descriptor{Digest: dg, Size: int64(len(data))}, bytes.NewReader(data)); err != nil {
			e.Infra("pre blob put: %v", err)
			return
		}
		run = func(rc *regclient.RegClient) error {
			err := rc.BlobDelete(ctx, mustRef(base), descriptor.Descriptor{Digest: dg, Size: int64(len(data))})
			if err != nil && errors.Is(err, errs.ErrNotFound) {
				return nil // the repeat after a crash that had already removed it
			}
			return err
		}
		intended = func() []string {
			if _, ok := st.Blob(dg.String()); ok {
				return []string{"the blob is still stored"}
			}
			return nil
		}
	case "image-copy-referrers":
		// an image with referrers (and their own referrers) and digest-tags copied with both options: the copy
		// rewrites the index once per fallback tag and digest-tag before the requested tag
		targets[tgtTag] = true
		w = newWorld(e)
		src := w.AddReg("src.test")
		src.K.Referrers = e.Choose("gen", 2, "refapi") == 0
		rich := g.Graph(gen.Opts{NoExternal: true})
		rich.Install(src, "proj/app", "v1")
		wo := oracle.WalkOpts{Referrers: true, DigestTags: true}
		all, dtags, _ := oracle.Closure(oracle.RegStore{Reg: src, Repo: "proj/app"}, rich.Root.Digest, wo)
		for _, n := range all {
			if n.ReferrerOf != "" {
				targets[regmodel.FallbackTag(n.ReferrerOf)] = true
			}
		}
		for t := range dtags {
			targets[t] = true
		}
		run = func(c *regclient.RegClient) error {
			return c.ImageCopy(ctx, mustRef("src.test/proj/app:v1"), mustRef(base+":"+tgtTag), regclient.ImageWithReferrers(), regclient.ImageWithDigestTags())
		}
		intended = func() []string {
			out := present(rich.Root.Digest, tgtTag)
			out = append(out, oracle.CheckPresent(oracle.RegStore{Reg: src, Repo: "proj/app"}, st, all)...)
			for t, d := range dtags {
				if got, _ := st.Tag(t); got != d {
					out = append(out, fmt.Sprintf("digest-tag %s resolves to %q, want %s", t, short(got), short(d)))
				}
			}
			return out
		}
	case "concurrent-copies":
		// two copies into the layout run side by side through one client: the process dies under both
		targets[tgtTag] = true
		targets["new2"] = true
		w = newWorld(e)
		src := w.AddReg("src.test")
		src.K.Referrers = e.Choose("gen", 2, "refapi") == 0
		newImg.Install(src, "proj/app", "v1")
		second := g.Graph(gen.Opts{NoReferrers: true, NoDigestTags: true, NoExternal: true})
		second.Install(src, "proj/app", "v2")
		run = func(c *regclient.RegClient) error {
			return inParallel(
				func() error {
					return c.ImageCopy(ctx, mustRef("src.test/proj/app:v1"), mustRef(base+":"+tgtTag))
				},
				func() error { return c.ImageCopy(ctx, mustRef("src.test/proj/app:v2"), mustRef(base+":new2")) })
		}
		intended = func() []string {
			return append(present(newImg.Root.Digest, tgtTag), present(second.Root.Digest, "new2")...)
		}
	case "concurrent-push-and-delete":
		// a push of a new tag while another task deletes tag b: both rewrite the index
		targets[tgtTag] = true
		targets["b"] = true
		run = func(c *regclient.RegClient) error {
			return inParallel(
				func() error { return pushNode(ctx, c, base, newImg.Root, tgtTag, false) },
				func() error {
					err := c.TagDelete(ctx, mustRef(base+":b"))
					if err != nil && errors.Is(err, errs.ErrNotFound) {
						return nil
					}
					return err
				})
		}
		intended = func() []string {
			out := present(newImg.Root.Digest, tgtTag)
			if _, ok := st.Tag("b"); ok {
				out = append(out, "tag b still present")
			}
			return out
		}
	case "image-import":
		targets[tgtTag] = true
		// build the archive from a scratch layout with the seam quiet
		sdir := e.TempDir()
		if err := pushNode(ctx, rc, "ocidir://"+sdir, newImg.Root, "exp", false); err != nil {
			e.Infra("export source: %v", err)
			return
		}
		var buf bytes.Buffer
		if err := rc.ImageExport(ctx, mustRef("ocidir://"+sdir+":exp"), &buf); err != nil {
			e.Infra("export: %v", err)
			return
		}
		tarBytes = buf.Bytes()
		run = func(c *regclient.RegClient) error {
			return c.ImageImport(ctx, mustRef(base+":"+tgtTag), bytes.NewReader(tarBytes))
		}
		intended = func() []string { return present(newImg.Root.Digest, tgtTag) }
	}
	if w != nil {
		rc = w.Client()
		// the pre-state client state (GC bookkeeping) is not needed for a copy
	}
	layoutExisted := populated || op == "close-gc"
	crashAt, torn := e.Param("crash_at"), e.Param("torn")
	sample := map[string]any{"populated": populated, "op": op, "target_tag": tgtTag, "crash_at": crashAt, "torn": torn, "pre_tags": preTags}
	e.SetCase(fmt.Sprintf("%v|%s|%s|%d|%d|%s|%s", populated, op, tgtTag, crashAt, torn, imgA.Root.Digest, newImg.Root.Digest), true, sample)
	// ---- the crash window
	mut0 := disk.Muts
	disk.Quiet = false
	disk.FreezeAt = 0
	if crashAt > 0 {
		disk.FreezeAt = mut0 + crashAt
		disk.Torn = torn
	}
	simrt.Event("op %s tag=%s populated=%v crash_at=%d torn=%d", op, tgtTag, populated, crashAt, torn)
	err := run(rc)
	drainTasks(e, 10)
	simrt.Event("op returned %v; crashed=%v at %s", err, disk.Frozen, disk.CrashedAt)
	muts := disk.Muts - mut0
	e.Info("muts", muts)
	for _, en := range disk.Mutations() {
		if en.Mut > mut0 && en.Op == "write" {
			e.Info(fmt.Sprintf("w%d", en.Mut-mut0), 1)
		}
	}
	crashed := disk.Frozen
	if crashed {
		e.Fault("crash")
		if torn > 0 {
			e.Fault("torn-write")
		}
		e.Probe("crash-in:" + op)
	}
	if crashAt == 0 && err != nil {
		e.Violation("vacuity", "op-failed-without-crash:"+op, "operation %s failed without any crash: %v", op, err)
		return
	}
	// ---- restart: the disk is live again, nothing of the old process survives
	simos.Use(nil)
	where := fmt.Sprintf("%s crashed at call %d (%s)", op, crashAt, disk.CrashedAt)
	fpSite := op
	if crashed {
		// the fingerprint names the call before which the process died, not the operation instance
		parts := strings.Fields(disk.CrashedAt)
		if len(parts) >= 2 {
			fpSite = parts[0] + ":" + baseName(parts[1])
		}
	}
	for _, p := range oracle.AuditLayout(dir, !layoutExisted) {
		e.Violation("valid-layout", "invalid-after-crash@"+fpSite, "%s: %s", where, p)
	}
	// tags that existed before and were not the target still resolve to the same complete image
	rc2 := regclient.New()
	var tnames []string
	for t := range preTags {
		tnames = append(tnames, t)
	}
	sort.Strings(tnames)
	for _, t := range tnames {
		if targets[t] {
			continue
		}
		d := preTags[t]
		if got, ok := st.Tag(t); !ok || got != d {
			e.Violation("other-tags", "tag-lost@"+fpSite, "%s: tag %s (not the target) resolved to %s before, now %q", where, t, short(d), short(got))
			continue
		}
		if miss := oracle.ImageComplete(st, d, oracle.WalkOpts{}); len(miss) > 0 {
			e.Violation("other-tags", "tag-incomplete@"+fpSite, "%s: tag %s is no longer complete: %s", where, t, strings.Join(miss, "; "))
		}
		// and a fresh client agrees
		m, gerr := rc2.ManifestGet(ctx, mustRef(base+":"+t))
		if gerr != nil {
			e.Violation("other-tags", "tag-unreadable@"+fpSite, "%s: a fresh client cannot read tag %s: %v", where, t, gerr)
		} else if m.GetDescriptor().Digest.String() != d {
			e.Violation("other-tags", "tag-changed@"+fpSite, "%s: a fresh client reads tag %s as %s, was %s", where, t, short(m.GetDescriptor().Digest.String()), short(d))
		}
	}
	// every tag present resolves to a complete image
	for _, t := range st.Tags() {
		d, _ := st.Tag(t)
		if miss := oracle.ImageComplete(st, d, oracle.WalkOpts{}); len(miss) > 0 {
			e.Violation("tags-complete", "present-tag-incomplete@"+fpSite, "%s: tag %s is present but %s", where, t, strings.Join(miss, "; "))
		}
	}
	// an operation that had returned success is fully visible
	if err == nil {
		if miss := intended(); len(miss) > 0 {
			e.Violation("durable", "success-not-visible:"+op, "%s returned success but %s", where, strings.Join(miss, "; "))
		}
	}
	// repeating the interrupted operation reaches the intended state
	if crashed {
		rc3 := regclient.New()
		if w != nil {
			rc3 = w.Client()
		}
		rerr := run(rc3)
		drainTasks(e, 10)
		simrt.Event("repeat returned %v", rerr)
		if miss := intended(); len(miss) > 0 {
			e.Violation("repeat", "repeat-does-not-recover@"+fpSite, "%s: repeating the operation (err=%v) does not reach the intended state: %s", where, rerr, strings.Join(miss, "; "))
		}
		// (a blob put or blob delete alone never creates an index: nothing to demand of it in a directory that had none)
		for _, p := range oracle.AuditLayout(dir, (op == "blob-put" || op == "blob-delete") && !layoutExisted) {
			e.Violation("repeat", "invalid-after-repeat@"+fpSite, "%s: after repeating the operation: %s", where, p)
		}
		for _, t := range tnames {
			if targets[t] {
				continue
			}
			if got, ok := st.Tag(t); !ok || got != preTags[t] {
				e.Violation("repeat", "tag-lost-after-repeat@"+fpSite, "%s: after repeating the operation tag %s (not the target) resolves to %q, was %s", where, t, short(got), short(preTags[t]))
			}
		}
	}
	e.Probe("op:" + op)
	if populated {
		e.Probe("from-populated")
	} else {
		e.Probe("from-empty")
	}
}

// inParallel runs the functions as tasks of the simulation and returns the first error.
func inParallel(fns ...func() error) error {
	errsOut := make([]error, len(fns))
	left := len(fns)
	doneCh := make(chan struct{})
	for i, fn := range fns {
		simrt.Go(func() {
			defer func() {
				left--
				if left == 0 {
					close(doneCh)
				}
			}()
			errsOut[i] = fn()
		})
	}
	<-doneCh
	simrt.Yield("joined")
	for _, err := range errsOut {
		if err != nil {
			return err
		}
	}
	return nil
}

func baseName(p string) string {
	if i := strings.LastIndexByte(p, '/'); i >= 0 {
		p = p[i+1:]
	}
	// strip variable parts (digests, temp counters)
	if len(p) >= 64 {
		return "<digest>" + p[64:]
	}
	return p
}
