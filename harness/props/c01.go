package props

import (
	"context"
	"errors"
	"fmt"
	"io"
	"os"
	"path/filepath"
	"strconv"
	"strings"

	"github.com/opencontainers/go-digest"

	"github.com/regclient/regclient"
	"github.com/regclient/regclient/internal/verif/core"
	"github.com/regclient/regclient/internal/verif/regmodel"
	"github.com/regclient/regclient/internal/verif/simnet"
	"github.com/regclient/regclient/internal/verif/simrt"
	"github.com/regclient/regclient/types/descriptor"
	"github.com/regclient/regclient/types/ref"
)

// C01: a blob read completes cleanly only on content matching the descriptor.
//
// reg: a byzantine server / faulty network plan applies, per GET of the blob
// (first request and every range resume), one behaviour from the corruption
// alphabet. ocidir: the stored file is corrupted between write and read.
// The oracle is the statement: the read loop ended with a bare io.EOF only if
// the delivered bytes hash to the descriptor's digest and have its size.
func init() {
	core.Register(&core.Prop{ID: "C01", Run: runC01, MaxSteps: 100000})
}

var c01Behaviours = []string{"ok", "drop", "flip", "extra-cl-true", "extra-cl-lie", "substitute-same-len", "substitute-other-len", "range-wrong-offset",
	"range-wrong-bytes", "range-no-content-range", "range-416", "404", "cl-short", "cl-long", "drop-at-0", "drop-at-end-1", "empty-body", "substitute-consistent-headers", "lying-digest-header"}

func runC01(e *core.Env) {
	// content
	n := 0
	switch e.Choose("gen", 6, "len") {
	case 0:
		n = 1 + e.Choose("gen", 64, "small")
	case 1:
		n = 0
	case 2:
		n = 1
	default:
		n = 1 + e.Choose("gen", 2048, "len")
	}
	data := make([]byte, n)
	seed := uint64(e.Choose("gen", 1<<30, "content")) + 1
	for i := range data {
		seed ^= seed << 13
		seed ^= seed >> 7
		seed ^= seed << 17
		data[i] = byte(seed)
	}
	// one blob in six is an image config (JSON), so that it can also be fetched through the config conversion
	asConfig := n >= 8 && e.Choose("gen", 6, "asconfig") == 5
	if asConfig {
		data = []byte(fmt.Sprintf(`{"architecture":"amd64","os":"linux","config":{"Labels":{"k":"%x"}},"rootfs":{"type":"layers","diff_ids":[]}}`, data[:n/4+1]))
		n = len(data)
	}
	alg := "sha256"
	if e.Choose("gen", 4, "alg") == 3 {
		alg = "sha512"
	}
	dig := regmodel.Digest(alg, data)
	desc := descriptor.Descriptor{Digest: digest.Digest(dig), Size: int64(n)}
	sizeKnown := e.Choose("gen", 3, "sizeknown") != 2
	if !sizeKnown {
		desc.Size = 0
	}
	// the descriptor may state a size the content does not have (right digest, wrong size, e.g. a manifest with a
	// bad size field): "when the descriptor states a size, [the bytes] number exactly that many" - no clean read then
	stated := n
	wrongSize := false
	if sizeKnown && n > 1 && e.Choose("gen", 6, "wrongsize") == 5 {
		stated = n + []int{1, -1, 7, -(n / 2)}[e.Choose("gen", 4, "sizedelta")]
		if stated <= 0 || stated == n {
			stated = n + 1
		}
		desc.Size = int64(stated)
		wrongSize = true
		e.Probe("descriptor-states-wrong-size")
	}
	useLayout := e.Choose("gen", 4, "scheme") == 3
	overlong := false // the source of the end of the stream visibly carries more bytes than the descriptor states
	faultFree := e.Choose("gen", 5, "faultfree") == 4
	var plan []string
	var rdr io.ReadSeekCloser
	var refUsed ref.Ref
	var rc *regclient.RegClient
	ctx := context.Background()
	var openErr error
	sample := map[string]any{"len": n, "alg": alg, "size_known": sizeKnown, "stated_size": stated}
	if useLayout {
		dir := e.TempDir()
		sample["scheme"] = "ocidir"
		bdir := filepath.Join(dir, "blobs", alg)
		if err := os.MkdirAll(bdir, 0o755); err != nil {
			panic(err)
		}
		_ = os.WriteFile(filepath.Join(dir, "oci-layout"), []byte(`{"imageLayoutVersion":"1.0.0"}`), 0o644)
		_ = os.WriteFile(filepath.Join(dir, "index.json"), []byte(`{"schemaVersion":2,"manifests":[]}`), 0o644)
		stored := append([]byte(nil), data...)
		corr := "none"
		if !faultFree {
			switch e.Choose("disk", 6, "corruption") {
			case 1:
				if len(stored) > 0 {
					i := e.Choose("disk", len(stored), "flipAt")
					stored[i] ^= 1 << uint(e.Choose("disk", 8, "bit"))
					corr = "flip@" + strconv.Itoa(i)
				}
			case 2:
				if len(stored) > 0 {
					k := e.Choose("disk", len(stored), "truncAt")
					stored = stored[:k]
					corr = "truncate@" + strconv.Itoa(k)
				}
			case 3:
				stored = append(stored, make([]byte, 1+e.Choose("disk", 16, "extra"))...)
				corr = "extend"
				overlong = true
			case 4:
				for i := range stored {
					stored[i] = ^stored[i]
				}
				corr = "substitute"
				if len(stored) == 0 {
					stored = []byte("x")
				}
			case 5:
				stored = []byte{}
				corr = "emptied"
			}
		}
		plan = []string{corr}
		e.Fault("stored:" + strings.SplitN(corr, "@", 2)[0])
		hexpart := dig[strings.IndexByte(dig, ':')+1:]
		if err := os.WriteFile(filepath.Join(bdir, hexpart), stored, 0o644); err != nil {
			panic(err)
		}
		rc = regclient.New()
		r, err := ref.New("ocidir://" + dir)
		if err != nil {
			panic(err)
		}
		refUsed = r
		b, err := rc.BlobGet(ctx, r, desc)
		openErr = err
		if err == nil {
			rdr = b
		}
	} else {
		sample["scheme"] = "reg"
		w := newWorld(e)
		up := w.AddReg("up.test")
		up.PutBlobAlg("r", alg, data)
		// one case in eight: the registry does not hold the blob, the descriptor carries an external URL, and the
		// bytes come from that host (a foreign layer); the same corruptions apply to what it serves
		viaURL := e.Choose("gen", 8, "viaurl") == 7
		if viaURL {
			delete(up.Repo("r").Blobs, dig)
			ext := w.AddReg("ext.test")
			ext.PutBlobAlg("layers", alg, data)
			desc.URLs = []string{"https://ext.test/v2/layers/blobs/" + dig}
			sample["served_by"] = "external URL of the descriptor"
			e.Probe("served-by-external-url")
		}
		// an optional mirror that holds different bytes under the digest
		if !faultFree && e.Choose("gen", 5, "badmirror") == 4 {
			m := w.AddReg("m1.test")
			bad := append([]byte(nil), data...)
			if len(bad) > 0 {
				bad[len(bad)/2] ^= 0x40
			} else {
				bad = []byte("z")
			}
			m.Repo("r").Blobs[dig] = bad
			w.Host("up.test").Mirrors = []string{"m1.test"}
			plan = append(plan, "mirror-with-other-bytes")
			e.Fault("mirror-other-bytes")
		}
		// per-GET behaviours
		nb := 0
		if !faultFree {
			nb = 1 + e.Choose("net", 5, "nbehaviours")
		}
		var script []string
		for i := 0; i < nb; i++ {
			script = append(script, c01Behaviours[e.Choose("net", len(c01Behaviours), "behaviour")])
		}
		plan = append(plan, script...)
		next := func() string {
			if len(script) == 0 {
				return "ok"
			}
			b := script[0]
			script = script[1:]
			return b
		}
		cur := map[int]string{}
		isBlobGet := func(x *simnet.Exchange) bool {
			return x.Method == "GET" && strings.Contains(x.Path, "/blobs/") && (x.Host == "up.test" && !viaURL || x.Host == "ext.test")
		}
		w.Net.Hook = func(x *simnet.Exchange) *simnet.Fault {
			if !isBlobGet(x) {
				return nil
			}
			b := next()
			cur[x.Seq] = b
			e.Fault(b)
			switch b {
			case "drop":
				return &simnet.Fault{Kind: simnet.FTruncate, TruncAt: e.Choose("net", 4096, "dropAt")}
			case "drop-at-0":
				return &simnet.Fault{Kind: simnet.FTruncate, TruncAt: 0}
			case "drop-at-end-1":
				return &simnet.Fault{Kind: simnet.FTruncate, TruncAt: 1<<30 - 1}
			case "404":
				return &simnet.Fault{Kind: simnet.F404}
			}
			return nil
		}
		w.Net.Mutate = func(x *simnet.Exchange, r *simnet.Response) *simnet.Response {
			b := cur[x.Seq]
			if !isBlobGet(x) || (r.Status != 200 && r.Status != 206) {
				return r
			}
			body := append([]byte(nil), r.Body...)
			isRange := r.Status == 206
			overlong = false // (the end of the stream now comes from this response)
			switch b {
			case "flip":
				if len(body) > 0 {
					i := e.Choose("net", len(body), "flipAt")
					body[i] ^= 1 << uint(e.Choose("net", 8, "bit"))
				}
			case "extra-cl-true":
				body = append(body, make([]byte, 1+e.Choose("net", 8, "extra"))...)
				r.Header.Set("Content-Length", strconv.Itoa(len(body)))
				overlong = true
			case "extra-cl-lie":
				orig := len(body)
				body = append(body, make([]byte, 1+e.Choose("net", 8, "extra"))...)
				r.Header.Set("Content-Length", strconv.Itoa(orig))
			case "substitute-same-len":
				for i := range body {
					body[i] = byte(i*7 + 3)
				}
			case "substitute-other-len":
				body = []byte("substituted content of another length")
				r.Header.Set("Content-Length", strconv.Itoa(len(body)))
			case "empty-body":
				body = nil
				r.Header.Set("Content-Length", "0")
			case "substitute-consistent-headers":
				// a server that serves other content and announces that content's own digest and length
				body = []byte("other content, self-consistently announced " + strconv.Itoa(len(body)))
				r.Header.Set("Content-Length", strconv.Itoa(len(body)))
				r.Header.Set("Docker-Content-Digest", regmodel.Digest(alg, body))
			case "lying-digest-header":
				r.Header.Set("Docker-Content-Digest", regmodel.Digest(alg, []byte("something else")))
			case "cl-short":
				if len(body) > 1 {
					r.Header.Set("Content-Length", strconv.Itoa(len(body)-1))
				}
			case "cl-long":
				r.Header.Set("Content-Length", strconv.Itoa(len(body)+1+e.Choose("net", 4, "cllong")))
			case "range-wrong-offset":
				if isRange && len(body) > 0 {
					// bytes from one position earlier than announced
					full := data
					var s, en, tot int
					fmt.Sscanf(r.Header.Get("Content-Range"), "bytes %d-%d/%d", &s, &en, &tot)
					if s > 0 && en < len(full) {
						body = append([]byte(nil), full[s-1:en]...)
					}
				}
			case "range-wrong-bytes":
				if isRange {
					for i := range body {
						body[i] ^= 0x55
					}
				}
			case "range-no-content-range":
				if isRange {
					r.Status = 200
					r.Header.Del("Content-Range")
					body = append([]byte(nil), data...)
					r.Header.Set("Content-Length", strconv.Itoa(len(body)))
				}
			case "range-416":
				if isRange {
					r.Status = 416
					body = nil
					r.Header.Set("Content-Length", "0")
				}
			}
			r.Body = body
			return r
		}
		rc = w.Client()
		r, err := ref.New("up.test/r")
		if err != nil {
			panic(err)
		}
		refUsed = r
		b, err := rc.BlobGet(ctx, r, desc)
		openErr = err
		if err == nil {
			rdr = b
		}
	}
	sample["plan"] = plan
	// reading: tape-drawn buffer sizes, optional rewind
	mode := e.Choose("gen", 4, "readmode") // 0,1: loop; 2: RawBody/ReadAll; 3: loop with rewind; 4: through the image-config conversion
	if asConfig && e.Choose("gen", 2, "viaconfig") == 1 {
		mode = 4
	}
	sample["read_mode"] = []string{"loop", "loop", "readall", "loop+rewind", "BlobGetOCIConfig"}[mode]
	e.SetCase(fmt.Sprintf("%v|%d|%s|%v|%v|%d|%x", sample["scheme"], n, alg, sizeKnown, plan, mode, seed), true, sample)
	simrt.Event("BlobGet len=%d alg=%s sizeKnown=%v plan=%v -> openErr=%v", n, alg, sizeKnown, plan, openErr)
	if openErr != nil {
		e.Probe("open-failed")
		if faultFree && !wrongSize {
			e.Violation("vacuity", "faultfree-open-failed", "fault-free BlobGet failed: %v", openErr)
		}
		return
	}
	defer rdr.Close()
	var delivered []byte
	var endErr error
	readLoop := func() {
		delivered = delivered[:0]
		endErr = nil
		for iter := 0; iter < 100000; iter++ {
			sz := 0
			switch e.Choose("slice", 6, "bufkind") {
			case 0:
				sz = 4096
			case 1:
				sz = 1
			case 2:
				sz = 0
			default:
				sz = 1 + e.Choose("slice", 700, "buf")
			}
			buf := make([]byte, sz)
			k, err := rdr.Read(buf)
			delivered = append(delivered, buf[:k]...)
			if err != nil {
				endErr = err
				return
			}
		}
		endErr = errors.New("harness: read loop did not end")
	}
	switch mode {
	case 4:
		// the conversion reads the stream to its end on the caller's behalf: what it hands back on success must be the blob
		_ = rdr.Close()
		cb, err := rc.BlobGetOCIConfig(ctx, refUsed, desc)
		if err != nil {
			endErr = err
		} else {
			delivered, _ = cb.RawBody()
			endErr = io.EOF
			e.Probe("read-through-config-conversion")
		}
	case 2:
		b, err := io.ReadAll(rdr)
		delivered, endErr = b, err
		if err == nil {
			endErr = io.EOF
		}
	case 3:
		// read part (or all) of the stream, rewind, read again from the start
		part := e.Choose("slice", 3, "rewindAfter")
		if part == 0 {
			readLoop()
		} else {
			buf := make([]byte, 1+e.Choose("slice", 300, "firstpart"))
			_, _ = rdr.Read(buf)
		}
		if _, err := rdr.Seek(0, io.SeekStart); err != nil {
			e.Probe("rewind-refused")
			simrt.Event("rewind refused: %v", err)
			return
		}
		e.Probe("rewound")
		readLoop()
	default:
		readLoop()
	}
	simrt.Event("read ended with %v after %d bytes", endErr, len(delivered))
	clean := endErr == io.EOF
	if clean {
		e.Probe("clean-read")
		got := regmodel.Digest(alg, delivered)
		if got != dig {
			e.Violation("integrity", "clean-read-wrong-digest", "read ended with a bare io.EOF after %d bytes hashing to %s, descriptor digest %s (plan %v, mode %v)", len(delivered), short(got), short(dig), plan, sample["read_mode"])
		} else if sizeKnown && len(delivered) != stated {
			e.Violation("integrity", "clean-read-wrong-size", "read ended cleanly with %d bytes, descriptor size %d (plan %v, mode %v)", len(delivered), stated, plan, sample["read_mode"])
		}
		// an over-long stream ends in an error: the response (or stored file) the end of the stream came from
		// carried bytes beyond the stated size, visibly (its announced length included them)
		if overlong && sizeKnown && n > 0 {
			e.Violation("integrity", "over-long-stream-read-cleanly", "the stream carried bytes beyond the descriptor's size %d, yet the read ended with a bare io.EOF after %d bytes (plan %v, mode %v)", n, len(delivered), plan, sample["read_mode"])
		}
		if !faultFree {
			e.Probe("clean-read-under-faults")
		}
	} else {
		e.Probe("error-read")
		if faultFree && !wrongSize {
			e.Violation("vacuity", "faultfree-read-failed", "fault-free read of a well-formed blob failed: %v", endErr)
		}
	}
}
