package props

import (
	"archive/tar"
	"bytes"
	"compress/gzip"
	"context"
	"encoding/json"
	"errors"
	"fmt"
	"io"
	"sort"
	"strings"

	"github.com/regclient/regclient"
	"github.com/regclient/regclient/internal/verif/core"
	"github.com/regclient/regclient/internal/verif/gen"
	"github.com/regclient/regclient/internal/verif/oracle"
	"github.com/regclient/regclient/internal/verif/regmodel"
	"github.com/regclient/regclient/internal/verif/simrt"
)

// C09: export then import reproduces the image; the archive is a valid OCI layout.
// Input-driven: the simulator supplies the parties (registries, layouts), the
// sliced streams and the independent audit; no schedule or crash dimension
// contributes materially.
func init() {
	core.Register(&core.Prop{ID: "C09", Run: runC09, MaxSteps: 300000})
}

type tarEntry struct {
	hdr  tar.Header
	data []byte
}

func readTar(b []byte) ([]tarEntry, error) {
	tr := tar.NewReader(bytes.NewReader(b))
	var out []tarEntry
	for {
		h, err := tr.Next()
		if err == io.EOF {
			return out, nil
		}
		if err != nil {
			return out, err
		}
		d, err := io.ReadAll(tr)
		if err != nil {
			return out, err
		}
		out = append(out, tarEntry{hdr: *h, data: d})
	}
}

func writeTar(ents []tarEntry) []byte {
	var buf bytes.Buffer
	tw := tar.NewWriter(&buf)
	for _, en := range ents {
		h := en.hdr
		_ = tw.WriteHeader(&h)
		if h.Typeflag == tar.TypeReg || h.Typeflag == 0 {
			_, _ = tw.Write(en.data)
		}
	}
	_ = tw.Close()
	return buf.Bytes()
}

// sliceReadSeeker hands out tape-sliced reads; failAt > 0: the failAt-th Read fails once (a transient read error of the medium).
type sliceReadSeeker struct {
	e      *core.Env
	r      *bytes.Reader
	failAt int
	reads  int
	failed bool
}

func (s *sliceReadSeeker) Read(p []byte) (int, error) {
	s.reads++
	if s.failAt > 0 && s.reads == s.failAt {
		s.failed = true
		return 0, errors.New("simulated read error of the archive medium")
	}
	if len(p) > 1 {
		switch s.e.Choose("slice", 4, "rs") {
		case 1:
			p = p[:1]
		case 2:
			p = p[:1+s.e.Choose("slice", len(p), "rslen")]
		}
	}
	return s.r.Read(p)
}
func (s *sliceReadSeeker) Seek(o int64, w int) (int64, error) { return s.r.Seek(o, w) }

// runC09Docker: importing a Docker-format archive (as written by docker save before the OCI layout was added to
// it: manifest.json, <config>.json, <layer-id>/layer.tar) yields an image whose config and uncompressed layers
// equal the archive's. The archive holds one to three images (sharing a layer or not), layers stored plain or
// gzip-compressed, duplicate layers expressed as symlinks, entries in a tape-chosen order, the whole archive
// optionally gzip-compressed; the image is selected by one of its names or not at all (first image).
func runC09Docker(e *core.Env) {
	ctx := context.Background()
	w := newWorld(e)
	g := gen.New(e.Tape)
	nImg := 1 + e.Choose("gen", 3, "dimages")
	layerGz := e.Choose("gen", 2, "dlayergz") == 1
	shareBase := e.Choose("gen", 2, "dshare") == 1
	linkKind := e.Choose("gen", 4, "dsymlink") // 2: repeated layers as symlinks, 3: as hardlinks
	symlinks := linkKind >= 2
	type dimg struct {
		res  *gen.RealResult
		tags []string
		lids []string
	}
	var imgs []*dimg
	var base *gen.RealResult
	if shareBase {
		base = g.RealImageSpec(gen.RealSpec{Docker: true, Comp: "none", MinOwn: 1})
	}
	var ents []tarEntry
	addFile := func(name string, data []byte) {
		ents = append(ents, tarEntry{hdr: tar.Header{Name: name, Typeflag: tar.TypeReg, Mode: 0o644, Size: int64(len(data))}, data: data})
	}
	type dman struct {
		Config   string
		RepoTags []string
		Layers   []string
	}
	var mans []dman
	written := map[string]string{} // layer diff id -> path of its layer.tar
	for i := 0; i < nImg; i++ {
		sp := gen.RealSpec{Docker: true, Comp: "none", MinOwn: 1, Base: base}
		r := g.RealImageSpec(sp)
		im := &dimg{res: r, tags: []string{fmt.Sprintf("example.org/app%d:v%d", i, i+1)}}
		if e.Choose("gen", 3, "dtwotags") == 2 {
			im.tags = append(im.tags, fmt.Sprintf("example.org/app%d:latest", i))
		}
		cfg := r.Node.Blobs[0]
		cfgName := strings.TrimPrefix(cfg.Desc.Digest, "sha256:") + ".json"
		addFile(cfgName, cfg.Data)
		m := dman{Config: cfgName, RepoTags: im.tags}
		for k, l := range r.Layers {
			diff := r.DiffIDs[k]
			lid := fmt.Sprintf("%064x", i*100+k+1)
			path := lid + "/layer.tar"
			if prev, ok := written[diff]; ok {
				if symlinks {
					// docker save wrote a repeated layer as a symlink to its first copy
					ents = append(ents, tarEntry{hdr: tar.Header{Name: lid + "/", Typeflag: tar.TypeDir, Mode: 0o755}})
					if linkKind == 2 {
						ents = append(ents, tarEntry{hdr: tar.Header{Name: path, Typeflag: tar.TypeSymlink, Linkname: "../" + prev, Mode: 0o777}})
						e.Probe("docker-archive-symlinked-layer")
					} else {
						// (the name a hardlink entry carries is relative to the root of the archive)
						ents = append(ents, tarEntry{hdr: tar.Header{Name: path, Typeflag: tar.TypeLink, Linkname: prev, Mode: 0o644}})
						e.Probe("docker-archive-hardlinked-layer")
					}
				} else {
					path = prev
					e.Probe("docker-archive-shared-layer-path")
				}
			} else {
				data := l.Tar
				if layerGz {
					var zb bytes.Buffer
					zw := gzip.NewWriter(&zb)
					_, _ = zw.Write(data)
					_ = zw.Close()
					data = zb.Bytes()
				}
				ents = append(ents, tarEntry{hdr: tar.Header{Name: lid + "/", Typeflag: tar.TypeDir, Mode: 0o755}})
				addFile(lid+"/VERSION", []byte("1.0"))
				addFile(lid+"/json", []byte(`{"id":"`+lid+`"}`))
				addFile(path, data)
				written[diff] = path
			}
			m.Layers = append(m.Layers, path)
			im.lids = append(im.lids, lid)
		}
		mans = append(mans, m)
		imgs = append(imgs, im)
	}
	mb, _ := json.Marshal(mans)
	addFile("manifest.json", mb)
	addFile("repositories", []byte("{}"))
	shuffle := e.Choose("gen", 2, "shuffle") == 1
	if shuffle {
		// (a symlink may come before or after the file it names; directories are only decoration)
		for i := len(ents) - 1; i > 0; i-- {
			j := e.Choose("gen", i+1, "shuf")
			ents[i], ents[j] = ents[j], ents[i]
		}
	}
	arch := writeTar(ents)
	wholeGz := e.Choose("gen", 3, "dwholegz") == 2
	if wholeGz {
		var zb bytes.Buffer
		zw := gzip.NewWriter(&zb)
		_, _ = zw.Write(arch)
		_ = zw.Close()
		arch = zb.Bytes()
	}
	sel := e.Choose("gen", nImg+1, "dselect") // nImg: no name, the first image
	var iopts []regclient.ImageOpts
	want := imgs[0]
	selName := ""
	if sel < nImg {
		want = imgs[sel]
		selName = want.tags[e.Choose("gen", len(want.tags), "dseltag")]
		iopts = append(iopts, regclient.ImageWithImportName(selName))
	}
	tgtLayout := e.Choose("gen", 3, "tgt") == 2
	tgt := &endpoint{}
	if tgtLayout {
		tgt.dir = e.TempDir()
	} else {
		tgt.reg, tgt.repo = w.AddReg("tgt.test"), "imported/app"
	}
	rc := w.Client()
	sample := map[string]any{"mode": "docker-format archive", "images": nImg, "layers_gzip": layerGz, "shared_base_layer": shareBase, "repeated_layers_as": []string{"same path", "same path", "symlink", "hardlink"}[linkKind], "entries_shuffled": shuffle, "archive_gzip": wholeGz,
		"selected": map[bool]string{true: "by name, image " + fmt.Sprint(sel), false: "no name (first image)"}[sel < nImg], "target": map[bool]string{true: "layout", false: "registry"}[tgtLayout]}
	e.SetCase(fmt.Sprintf("%v|%s", sample, want.res.Node.Digest), true, sample)
	e.Probe("docker-archive")
	if sel > 0 && sel < nImg {
		e.Probe("docker-archive-selected-later-image")
	}
	simrt.Event("ImageImport of a docker-format archive (%d images, select %q)", nImg, selName)
	// one case in four: a single read of the archive fails somewhere; the import may then fail, but if it reports
	// success the image must still be the archive's
	rdr := &sliceReadSeeker{e: e, r: bytes.NewReader(arch)}
	if e.Choose("gen", 4, "readfault") == 3 {
		rdr.failAt = 1 + e.Choose("gen", 400, "readfaultat")
	}
	if err := rc.ImageImport(ctx, mustRef(tgt.refStr("imp")), rdr, iopts...); err != nil {
		if rdr.failed {
			e.Probe("docker-import-failed-on-read-error")
			return
		}
		e.Violation("import", "docker-import-failed", "importing a docker-format archive (%v) failed: %v", sample, err)
		return
	}
	if rdr.failed {
		e.Probe("docker-import-succeeded-despite-read-error")
	}
	drainTasks(e, 10)
	ts := tgt.store()
	d, ok := ts.Tag("imp")
	if !ok {
		e.Violation("docker-import", "imported-tag-missing", "after the import of a docker-format archive the tag does not resolve")
		return
	}
	raw, _, _ := ts.Manifest(d)
	var m struct {
		Config struct{ Digest string } `json:"config"`
		Layers []struct {
			Digest string
			Size   int64
		} `json:"layers"`
	}
	if err := json.Unmarshal(raw, &m); err != nil {
		e.Violation("docker-import", "imported-manifest-invalid", "the imported manifest does not parse: %v", err)
		return
	}
	cb, ok := ts.Blob(m.Config.Digest)
	if !ok || !bytes.Equal(cb, want.res.Node.Blobs[0].Data) {
		which := "another content"
		for i, im := range imgs {
			if bytes.Equal(cb, im.res.Node.Blobs[0].Data) {
				which = fmt.Sprintf("the config of image %d of the archive", i)
			}
		}
		e.Violation("docker-import", "imported-config-differs", "the imported image's config is not the selected image's (image %d, %q) config file: it is %s", sel%nImg, selName, which)
	}
	if len(m.Layers) != len(want.res.Layers) {
		e.Violation("docker-import", "imported-layer-count", "the imported image has %d layers, the archive's image has %d", len(m.Layers), len(want.res.Layers))
		return
	}
	for i, l := range m.Layers {
		lb, ok := ts.Blob(l.Digest)
		if !ok {
			e.Violation("docker-import", "imported-layer-missing", "layer %d (%s) of the imported image is not at the target", i, short(l.Digest))
			continue
		}
		if l.Size != int64(len(lb)) {
			e.Violation("docker-import", "imported-layer-size", "layer %d: descriptor size %d, stored %d bytes", i, l.Size, len(lb))
		}
		ub, err := decompress(lb)
		if err != nil || !bytes.Equal(ub, want.res.Layers[i].Tar) {
			e.Violation("docker-import", "imported-layer-differs", "layer %d of the imported image does not decompress to the archive's layer %d (err %v, %d vs %d bytes)", i, i, err, len(ub), len(want.res.Layers[i].Tar))
		}
	}
	e.Probe("docker-import-ok")
}

func runC09(e *core.Env) {
	if e.Choose("gen", 4, "mode") == 3 {
		runC09Docker(e)
		return
	}
	ctx := context.Background()
	w := newWorld(e)
	g := gen.New(e.Tape)
	g.MaxBlob = 200
	g.NoExt = true
	if e.Choose("gen", 6, "alg") == 5 {
		g.Alg = "sha512"
	}
	// the deprecated OCI artifact manifest type is outside what export/import handle by design
	// (it is exported as a blob); images, indexes, nested indexes, schema1, image-shaped artifacts are in
	var gr *gen.Graph
	for {
		gr = g.Graph(gen.Opts{NoReferrers: true, NoDigestTags: true, NoExternal: true})
		if gr.Shape != "index+oci-artifact" {
			break
		}
	}
	srcLayout := e.Choose("gen", 3, "src") == 2 && g.Alg == "sha256"
	tgtLayout := e.Choose("gen", 3, "tgt") == 2
	src := &endpoint{}
	if srcLayout {
		src.dir = e.TempDir()
	} else {
		src.reg, src.repo = w.AddReg("src.test"), "proj/app"
	}
	src.install(gr, "v1", false)
	tgt := &endpoint{}
	if tgtLayout {
		tgt.dir = e.TempDir()
	} else {
		tgt.reg, tgt.repo = w.AddReg("tgt.test"), "imported/app"
	}
	rc := w.Client()
	compress := e.Choose("gen", 2, "gzip") == 1
	var xopts []regclient.ImageOpts
	if compress {
		xopts = append(xopts, regclient.ImageWithExportCompress())
	}
	exportTag := "v1"
	if e.Choose("gen", 3, "exportref") == 2 {
		xopts = append(xopts, regclient.ImageWithExportRef(mustRef("registry.example.org/renamed/app:stable")))
		exportTag = "stable"
	}
	shuffle := e.Choose("gen", 3, "shuffle") == 2
	how := []string{"tag", "tag", "digest", "import-name"}[e.Choose("gen", 4, "select")]
	sample := map[string]any{"image": gr.Describe(), "source": map[bool]string{true: "layout", false: "registry"}[srcLayout], "target": map[bool]string{true: "layout", false: "registry"}[tgtLayout],
		"gzip": compress, "export_tag": exportTag, "entries_shuffled": shuffle, "import_by": how, "alg": g.Alg}
	e.SetCase(fmt.Sprintf("%v|%s", sample, gr.Root.Digest), true, sample)
	e.Probe("shape:" + gr.Shape)
	var buf bytes.Buffer
	simrt.Event("ImageExport shape=%s gzip=%v", gr.Shape, compress)
	if err := rc.ImageExport(ctx, mustRef(src.refStr("v1")), &buf, xopts...); err != nil {
		e.Violation("export", "export-failed:"+gr.Shape, "exporting a well-formed %s image from a %v failed: %v", gr.Shape, sample["source"], err)
		return
	}
	archive := buf.Bytes()
	plain := archive
	if compress {
		zr, err := gzip.NewReader(bytes.NewReader(archive))
		if err != nil {
			e.Violation("archive", "not-gzip", "compressed export is not gzip: %v", err)
			return
		}
		plain, err = io.ReadAll(zr)
		if err != nil {
			e.Violation("archive", "gzip-corrupt", "compressed export does not decompress: %v", err)
			return
		}
	}
	ents, err := readTar(plain)
	if err != nil {
		e.Violation("archive", "not-tar", "export is not a readable tar: %v", err)
		return
	}
	files := map[string][]byte{}
	for _, en := range ents {
		files[strings.TrimPrefix(en.hdr.Name, "./")] = en.data
	}
	// the archive is a well-formed OCI layout
	if lb, ok := files["oci-layout"]; !ok || !strings.Contains(string(lb), `"imageLayoutVersion"`) {
		e.Violation("archive", "no-oci-layout", "the archive has no valid oci-layout file")
	}
	for name, data := range files {
		if strings.HasPrefix(name, "blobs/") {
			parts := strings.Split(name, "/")
			if len(parts) == 3 && len(data) >= 0 && parts[2] != "" {
				if regmodel.Digest(parts[1], data) != parts[1]+":"+parts[2] {
					e.Violation("archive", "entry-not-its-digest", "archive entry %s does not hash to its name", name)
				}
			}
		}
	}
	var ix struct {
		Manifests []struct {
			Digest      string            `json:"digest"`
			Annotations map[string]string `json:"annotations"`
		} `json:"manifests"`
	}
	if err := json.Unmarshal(files["index.json"], &ix); err != nil || len(ix.Manifests) != 1 {
		e.Violation("archive", "index-invalid", "index.json of the archive is invalid or does not name exactly the exported image")
	} else {
		if ix.Manifests[0].Digest != gr.Root.Digest {
			e.Violation("archive", "index-wrong-digest", "index.json names %s, exported image is %s", short(ix.Manifests[0].Digest), short(gr.Root.Digest))
		}
		if ix.Manifests[0].Annotations["org.opencontainers.image.ref.name"] != exportTag {
			e.Violation("archive", "index-wrong-tag", "index.json records tag %q, want %q", ix.Manifests[0].Annotations["org.opencontainers.image.ref.name"], exportTag)
		}
	}
	// closure of the archive itself
	for _, n := range gr.AllNodes() {
		if _, ok := files["blobs/"+strings.Replace(n.Digest, ":", "/", 1)]; !ok {
			e.Violation("archive", "archive-incomplete", "manifest %s is not in the archive", short(n.Digest))
		}
		for _, b := range append(append([]*gen.Blob{}, n.Blobs...), n.BlobKids...) {
			if _, ok := files["blobs/"+strings.Replace(b.Desc.Digest, ":", "/", 1)]; !ok {
				e.Violation("archive", "archive-incomplete", "blob %s is not in the archive", short(b.Desc.Digest))
			}
		}
	}
	// a single image also carries a Docker-loadable manifest
	if gr.Root.Kind == "image" || gr.Root.Kind == "artifact" {
		var dm []struct {
			Config   string
			RepoTags []string
			Layers   []string
		}
		if err := json.Unmarshal(files["manifest.json"], &dm); err != nil || len(dm) != 1 {
			e.Violation("archive", "no-docker-manifest", "a single image export carries no usable manifest.json")
		} else {
			if _, ok := files[dm[0].Config]; !ok {
				e.Violation("archive", "docker-manifest-dangling", "manifest.json names config %s which is not in the archive", dm[0].Config)
			}
			for _, l := range dm[0].Layers {
				if _, ok := files[l]; !ok {
					e.Violation("archive", "docker-manifest-dangling", "manifest.json names layer %s which is not in the archive", l)
				}
			}
			// loadable: one entry per layer of the image, in order (a layer that occurs twice is listed twice)
			if gr.Root.Kind == "image" && len(gr.Root.Blobs) > 0 {
				var want []string
				for _, b := range gr.Root.Blobs[1:] {
					want = append(want, "blobs/"+strings.Replace(b.Desc.Digest, ":", "/", 1))
				}
				if strings.Join(want, ",") != strings.Join(dm[0].Layers, ",") {
					e.Violation("archive", "docker-manifest-layers-differ", "manifest.json lists %d layers %v, the image has %d: %v", len(dm[0].Layers), dm[0].Layers, len(want), want)
				}
			}
			e.Probe("docker-manifest-checked")
		}
	}
	if e.Failed() {
		return
	}
	// import (optionally from a re-ordered archive: entries in any order)
	imp := archive
	if shuffle {
		sh := append([]tarEntry(nil), ents...)
		for i := len(sh) - 1; i > 0; i-- {
			j := e.Choose("gen", i+1, "shuf")
			sh[i], sh[j] = sh[j], sh[i]
		}
		imp = writeTar(sh)
		e.Probe("shuffled-archive")
	}
	var iopts []regclient.ImageOpts
	tgtRef := mustRef(tgt.refStr("imp"))
	switch how {
	case "digest":
		tgtRef = mustRef(strings.TrimSuffix(tgt.refStr("x"), ":x") + "@" + gr.Root.Digest)
	case "import-name":
		iopts = append(iopts, regclient.ImageWithImportName(exportTag))
	}
	// the import tag may already exist at the new location and name another image (a re-import of :stable)
	if how != "digest" && e.Choose("gen", 3, "importOverExisting") == 2 {
		og := gen.New(e.Tape)
		og.MaxBlob = 40
		og.NoExt = true
		old := &gen.Graph{Root: og.Image(false), DigestTags: map[string]*gen.Node{}}
		tgt.install(old, "imp", false)
		e.Probe("import-onto-an-existing-tag")
	}
	simrt.Event("ImageImport by %s into %v", how, sample["target"])
	if err := rc.ImageImport(ctx, tgtRef, &sliceReadSeeker{e: e, r: bytes.NewReader(imp)}, iopts...); err != nil {
		e.Violation("import", "import-failed:"+gr.Shape, "importing the exported archive (%s, shuffled=%v, by %s) failed: %v", gr.Shape, shuffle, how, err)
		return
	}
	drainTasks(e, 10)
	ts := tgt.store()
	ss := src.store()
	if how != "digest" {
		if d, ok := ts.Tag("imp"); !ok || d != gr.Root.Digest {
			e.Violation("roundtrip", "imported-tag-wrong", "after import the tag resolves to %q, the original digest is %s", short(d), short(gr.Root.Digest))
			return
		}
	}
	needs, _, bad := oracle.Closure(ss, gr.Root.Digest, oracle.WalkOpts{})
	if len(bad) > 0 {
		e.Infra("source incomplete: %v", bad)
		return
	}
	if miss := oracle.CheckPresent(ss, ts, needs); len(miss) > 0 {
		sort.Strings(miss)
		e.Violation("roundtrip", "imported-content-"+classify(miss[0]), "after export and import (%s): %s", gr.Shape, strings.Join(miss, "; "))
	}
	e.Probe("roundtrip-ok")
}
