package props

import (
	"bytes"
	"context"
	"encoding/json"
	"fmt"
	"os"
	"path/filepath"
	"reflect"
	"strconv"
	"strings"

	"github.com/opencontainers/go-digest"

	"github.com/regclient/regclient"
	"github.com/regclient/regclient/internal/verif/core"
	"github.com/regclient/regclient/internal/verif/gen"
	"github.com/regclient/regclient/internal/verif/regmodel"
	"github.com/regclient/regclient/internal/verif/simnet"
	"github.com/regclient/regclient/internal/verif/simrt"
	"github.com/regclient/regclient/types/descriptor"
	"github.com/regclient/regclient/types/manifest"
	v1 "github.com/regclient/regclient/types/oci/v1"
)

// C02: a manifest is exactly the bytes its digest names, at fetch and after edits.
//
// Mode A (has a fault dimension): fetch from a byzantine registry or a layout
// with every combination of expected-digest sources, then re-push to a
// recording registry. Mode B (input/program-driven): setter programs.
func init() {
	core.Register(&core.Prop{ID: "C02", Run: runC02, MaxSteps: 100000})
}

var c02Behaviours = []string{"ok", "ok", "connection-dropped-mid-body", "flip", "truncate-cl-adjusted", "substitute", "substitute+matching-digest-header", "wrong-digest-header", "no-digest-header", "contradicting-content-type", "append-whitespace", "reencode-json"}

func declaredMT(raw []byte) string {
	var p struct {
		MediaType string `json:"mediaType"`
	}
	_ = json.Unmarshal(raw, &p)
	return p.MediaType
}

func runC02(e *core.Env) {
	if e.Choose("gen", 3, "mode") == 2 {
		c02Setters(e)
		return
	}
	ctx := context.Background()
	w := newWorld(e)
	g := gen.New(e.Tape)
	g.MaxBlob = 60
	if e.Choose("gen", 5, "alg") == 4 {
		g.Alg = "sha512"
	}
	gr := g.Graph(gen.Opts{NoDigestTags: true})
	nodes := gr.AllNodes()
	n := nodes[e.Choose("gen", len(nodes), "which")]
	signed := false
	if e.Choose("gen", 6, "signed-schema1") == 5 {
		// a signed schema1 manifest: its digest names the canonical payload, not the raw bytes
		n = g.Schema1Signed()
		gr = &gen.Graph{Root: n, DigestTags: map[string]*gen.Node{}, Alg: g.Alg, Shape: "schema1-signed"}
		nodes = gr.AllNodes()
		signed = true
	}
	useLayout := e.Choose("gen", 4, "endpoint") == 3 && g.Alg == "sha256" && !signed
	behaviour := c02Behaviours[e.Choose("net", len(c02Behaviours), "behaviour")]
	if useLayout {
		behaviour = []string{"ok", "stored-flip", "stored-truncate", "stored-substitute", "index-entry-size-wrong"}[e.Choose("disk", 5, "stored")]
	}
	// how the expected digest is supplied
	how := []string{"tag", "digest-ref", "tag+descriptor", "digest-ref+descriptor", "tag+wrong-descriptor", "wrong-digest-ref", "digest-ref+other-descriptor"}[e.Choose("gen", 7, "how")]
	ep := &endpoint{}
	var up *regmodel.Reg
	served := n.Raw
	if useLayout {
		ep.dir = e.TempDir()
		if err := gr.InstallLayout(ep.dir, "v1", false); err != nil {
			panic(err)
		}
		_ = gen.LayoutSetTags(ep.dir, map[string]*gen.Node{"pick": n})
		stored := append([]byte(nil), n.Raw...)
		switch behaviour {
		case "stored-flip":
			stored[e.Choose("disk", len(stored), "at")] ^= 0x20
		case "stored-truncate":
			stored = stored[:e.Choose("disk", len(stored), "at")]
		case "stored-substitute":
			stored = nodes[0].Raw
			if n == nodes[0] {
				stored = []byte(`{"schemaVersion":2,"mediaType":"application/vnd.oci.image.index.v1+json","manifests":[]}`)
			}
		}
		_ = gen.LayoutFile(ep.dir, n.Digest, stored)
		served = stored
		if behaviour == "index-entry-size-wrong" {
			// a layout written by another tool whose index entry carries a wrong size for the (intact) manifest
			ib, _ := os.ReadFile(filepath.Join(ep.dir, "index.json"))
			var ix map[string]any
			if json.Unmarshal(ib, &ix) == nil {
				for _, m := range ix["manifests"].([]any) {
					me := m.(map[string]any)
					if me["digest"] == n.Digest {
						me["size"] = len(n.Raw) + 7
					}
				}
				nb, _ := json.Marshal(ix)
				_ = os.WriteFile(filepath.Join(ep.dir, "index.json"), nb, 0o644)
			}
		}
	} else {
		up = w.AddReg("up.test")
		ep.reg, ep.repo = up, "proj/app"
		gr.Install(up, "proj/app", "v1")
		up.Repo("proj/app").Tags["pick"] = n.Digest
		if behaviour == "connection-dropped-mid-body" {
			// not a byzantine registry but a network fault: the body of the first manifest GET breaks off and the
			// client resumes with a Range request, which the registry honours (206, Content-Length of the rest)
			dropped := false
			w.Net.Hook = func(x *simnet.Exchange) *simnet.Fault {
				if dropped || x.Method != "GET" || !strings.Contains(x.Path, "/manifests/") || x.Host != "up.test" {
					return nil
				}
				dropped = true
				e.Fault("body-truncate")
				return &simnet.Fault{Kind: simnet.FTruncate, TruncAt: 1 + e.Choose("net", len(n.Raw), "dropat")}
			}
		}
		w.Net.Mutate = func(x *simnet.Exchange, r *simnet.Response) *simnet.Response {
			if x.Method != "GET" || !strings.Contains(x.Path, "/manifests/") || r.Status != 200 || x.Host != "up.test" {
				return r
			}
			body := append([]byte(nil), r.Body...)
			switch behaviour {
			case "flip":
				body[e.Choose("net", len(body), "at")] ^= 0x20
			case "truncate-cl-adjusted":
				body = body[:e.Choose("net", len(body), "at")]
			case "substitute", "substitute+matching-digest-header":
				body = []byte(`{"schemaVersion":2,"mediaType":"` + n.MediaType + `","manifests":[],"layers":[],"config":{"mediaType":"application/vnd.oci.empty.v1+json","digest":"sha256:44136fa355b3678a1146ad16f7e8649e94fb4fc21fe77e8310c060f61caaff8a","size":2}}`)
				if behaviour == "substitute+matching-digest-header" {
					r.Header.Set("Docker-Content-Digest", regmodel.Digest(g.Alg, body))
				}
			case "wrong-digest-header":
				r.Header.Set("Docker-Content-Digest", regmodel.Digest(g.Alg, []byte("other")))
			case "no-digest-header":
				r.Header.Del("Docker-Content-Digest")
			case "contradicting-content-type":
				// any manifest type other than the one the body declares
				var others []string
				for _, t := range []string{gen.MTOCIManifest, gen.MTOCIIndex, gen.MTDockerMan, gen.MTDockerList} {
					if t != n.MediaType {
						others = append(others, t)
					}
				}
				r.Header.Set("Content-Type", others[e.Choose("net", len(others), "othertype")])
			case "append-whitespace":
				body = append(body, '\n', ' ')
			case "reencode-json":
				var v any
				if json.Unmarshal(body, &v) == nil {
					body, _ = json.Marshal(v)
				}
			}
			r.Body = body
			r.Header.Set("Content-Length", strconv.Itoa(len(body)))
			served = body
			return r
		}
	}
	rec := w.AddReg("rec.test") // recording registry for the re-push
	rc := w.Client()
	base := strings.TrimSuffix(ep.refStr("x"), ":x")
	wrong := regmodel.Digest(g.Alg, []byte("a digest of something else"))
	refStr := base + ":pick"
	var opts []regclient.ManifestOpts
	var expected []string
	switch how {
	case "digest-ref":
		refStr = base + "@" + n.Digest
		expected = append(expected, n.Digest)
	case "tag+descriptor":
		opts = append(opts, regclient.WithManifestDesc(descriptor.Descriptor{MediaType: n.MediaType, Digest: digest.Digest(n.Digest), Size: int64(len(n.Raw))}))
		expected = append(expected, n.Digest)
	case "digest-ref+descriptor":
		refStr = base + "@" + n.Digest
		opts = append(opts, regclient.WithManifestDesc(descriptor.Descriptor{MediaType: n.MediaType, Digest: digest.Digest(n.Digest), Size: int64(len(n.Raw))}))
		expected = append(expected, n.Digest)
	case "tag+wrong-descriptor":
		opts = append(opts, regclient.WithManifestDesc(descriptor.Descriptor{MediaType: n.MediaType, Digest: digest.Digest(wrong), Size: int64(len(n.Raw))}))
		expected = append(expected, wrong)
	case "digest-ref+other-descriptor":
		// the reference is pinned to the stored manifest, the descriptor names another digest: what comes back
		// must hash to the descriptor's digest (or nothing comes back)
		refStr = base + "@" + n.Digest
		opts = append(opts, regclient.WithManifestDesc(descriptor.Descriptor{MediaType: n.MediaType, Digest: digest.Digest(wrong), Size: int64(len(n.Raw))}))
		expected = append(expected, wrong)
	case "wrong-digest-ref":
		// the registry is asked for the right manifest, the caller believes in another digest:
		// only reachable by tag, so the tag carries the content and the digest rides in the ref
		refStr = base + ":pick@" + wrong
		expected = append(expected, wrong)
	}
	sample := map[string]any{"mode": "A: fetch and re-push", "endpoint": map[bool]string{true: "layout", false: "registry"}[useLayout], "alg": g.Alg, "manifest": n.Kind + " " + n.MediaType, "server_behaviour": behaviour, "expected_digest_via": how, "cache": w.Cache}
	e.SetCase(fmt.Sprintf("A|%v|%s", sample, n.Digest), true, sample)
	e.Fault(behaviour)
	e.Probe("how:" + how)
	r, rerr := refNew(refStr)
	if rerr != nil {
		e.Probe("ref-rejected")
		return
	}
	simrt.Event("ManifestGet %s behaviour=%s how=%s", how, behaviour, how)
	m, err := rc.ManifestGet(ctx, r, opts...)
	simrt.Event("ManifestGet returned %v", err)
	if err != nil {
		e.Probe("fetch-rejected")
		if behaviour == "ok" && !strings.Contains(how, "wrong") && !strings.Contains(how, "other") {
			e.Violation("vacuity", "clean-fetch-failed", "fetch of an uncorrupted manifest (%s) failed: %v", how, err)
		}
		return
	}
	e.Probe("fetch-ok")
	raw, rberr := m.RawBody()
	if rberr != nil {
		e.Violation("raw", "rawbody-error", "RawBody failed on a fetched manifest: %v", rberr)
		return
	}
	d := m.GetDescriptor()
	alg := string(d.Digest.Algorithm())
	if regmodel.ManifestDigest(alg, d.MediaType, raw) != d.Digest.String() {
		e.Violation("digest", "descriptor-digest-not-of-raw", "fetched manifest reports digest %s but its bytes hash to %s (behaviour %s, expected via %s)", short(d.Digest.String()), short(regmodel.ManifestDigest(alg, d.MediaType, raw)), behaviour, how)
	}
	if signed {
		e.Probe("signed-schema1-fetched")
	}
	if d.Size != int64(len(raw)) && !signed {
		e.Violation("digest", "descriptor-size-not-of-raw", "fetched manifest reports size %d, raw bytes are %d", d.Size, len(raw))
	}
	for _, x := range expected {
		if regmodel.ManifestDigest(string(digest.Digest(x).Algorithm()), d.MediaType, raw) != x {
			e.Violation("digest", "returned-despite-expected-digest", "a manifest was returned although the expected digest %s (via %s) is not the hash of its bytes (behaviour %s)", short(x), how, behaviour)
		}
	}
	// announced digest as the only source (fetch by tag, header present)
	if how == "tag" && !useLayout {
		var announced string
		for _, x := range w.Net.Log {
			if x.Method == "GET" && strings.Contains(x.Path, "/manifests/pick") && x.Status == 200 {
				announced = x.RespHdr.Get("Docker-Content-Digest")
			}
		}
		if announced != "" && regmodel.IsDigest(announced) && regmodel.ManifestDigest(string(digest.Digest(announced).Algorithm()), d.MediaType, raw) != announced {
			e.Violation("digest", "returned-despite-announced-digest", "the registry announced %s, the bytes hash to something else, yet the manifest was returned (behaviour %s)", short(announced), behaviour)
		}
	}
	if mt := declaredMT(raw); mt != "" && d.MediaType != mt {
		e.Violation("mediatype", "media-type-contradicts-body", "reported media type %s, the body declares %s (behaviour %s)", d.MediaType, mt, behaviour)
	}
	if !bytes.Equal(raw, served) {
		e.Violation("raw", "raw-bytes-not-preserved", "RawBody differs from the bytes that were served (%d vs %d bytes)", len(raw), len(served))
	}
	// re-push to a recording registry: the digest must not change
	perr := rc.ManifestPut(ctx, mustRef("rec.test/copy/app:again"), m)
	if perr != nil {
		e.Probe("repush-failed")
		simrt.Event("re-push failed: %v", perr)
		return
	}
	rp := rec.Repos["copy/app"]
	got := rp.Manifests[rp.Tags["again"]]
	if got == nil {
		e.Violation("repush", "repush-changed-digest", "re-pushing the fetched manifest did not store it under its digest %s", short(d.Digest.String()))
	} else if !bytes.Equal(got.Raw, raw) {
		// a signed schema1 body may lose insignificant bytes outside its canonical payload (trailing
		// white space a server appended); what the statement forbids is a changed digest
		if !signed || regmodel.ManifestDigest(alg, d.MediaType, got.Raw) != d.Digest.String() {
			e.Violation("repush", "repush-changed-bytes", "re-pushing the fetched manifest sent different bytes (digest would change from %s)", short(d.Digest.String()))
		}
	}
	e.Probe("repushed")
}

func refNew(s string) (r refT, err error) {
	defer func() {
		if x := recover(); x != nil {
			err = fmt.Errorf("%v", x)
		}
	}()
	return refParse(s)
}

// ---- mode B: setter programs

func c02Setters(e *core.Env) {
	ctx := context.Background()
	w := newWorld(e)
	rec := w.AddReg("rec.test")
	g := gen.New(e.Tape)
	g.MaxBlob = 40
	gr := g.Graph(gen.Opts{NoDigestTags: true, NoReferrers: true})
	nodes := gr.AllNodes()
	n := nodes[e.Choose("gen", len(nodes), "which")]
	m, err := manifest.New(manifest.WithRaw(n.Raw))
	if err != nil {
		e.Violation("vacuity", "parse-failed", "cannot parse a generated manifest: %v", err)
		return
	}
	other := g.Image(false)
	mkDesc := func(b *gen.Blob) descriptor.Descriptor {
		return descriptor.Descriptor{MediaType: b.Desc.MediaType, Digest: digest.Digest(b.Desc.Digest), Size: int64(len(b.Data))}
	}
	var prog []string
	check := func(step string) bool {
		d := m.GetDescriptor()
		mj, err := m.MarshalJSON()
		if err != nil {
			e.Violation("setter", "marshal-failed", "after %s MarshalJSON fails: %v", step, err)
			return false
		}
		raw, _ := m.RawBody()
		alg := string(d.Digest.Algorithm())
		if regmodel.Digest(alg, mj) != d.Digest.String() {
			e.Violation("setter", "descriptor-stale-after-edit", "after %s the descriptor says %s but the serialisation that will be pushed hashes to %s", step, short(d.Digest.String()), short(regmodel.Digest(alg, mj)))
			return false
		}
		if d.Size != int64(len(mj)) {
			e.Violation("setter", "size-stale-after-edit", "after %s the descriptor size is %d, the serialisation has %d bytes", step, d.Size, len(mj))
			return false
		}
		if !bytes.Equal(raw, mj) {
			e.Violation("setter", "rawbody-differs-from-marshal", "after %s RawBody and MarshalJSON differ", step)
			return false
		}
		// parse back: getters agree
		back, err := manifest.New(manifest.WithRaw(mj))
		if err != nil {
			e.Violation("setter", "reparse-failed", "after %s the serialisation does not parse: %v", step, err)
			return false
		}
		// "its media type never contradicts the one the body declares": after an edit too
		var declared struct {
			MediaType string `json:"mediaType"`
		}
		if json.Unmarshal(mj, &declared) == nil && declared.MediaType != "" && declared.MediaType != d.MediaType {
			e.Violation("setter", "media-type-contradicts-body-after-edit", "after %s the descriptor says %s, the serialisation that will be pushed declares %s", step, d.MediaType, declared.MediaType)
			return false
		}
		if back.GetDescriptor().MediaType != d.MediaType {
			e.Violation("setter", "media-type-not-roundtrip", "after %s the descriptor says %s, the serialisation parses back as %s", step, d.MediaType, back.GetDescriptor().MediaType)
			return false
		}
		if a, ok := m.(manifest.Annotator); ok {
			x, _ := a.GetAnnotations()
			y, _ := back.(manifest.Annotator).GetAnnotations()
			if len(x) != len(y) || (len(x) > 0 && !reflect.DeepEqual(x, y)) {
				e.Violation("setter", "annotations-not-roundtrip", "after %s annotations %v parse back as %v", step, x, y)
				return false
			}
		}
		if im, ok := m.(manifest.Imager); ok {
			x, _ := im.GetLayers()
			y, _ := back.(manifest.Imager).GetLayers()
			if len(x) != len(y) {
				e.Violation("setter", "layers-not-roundtrip", "after %s %d layers parse back as %d", step, len(x), len(y))
				return false
			}
			for i := range x {
				if x[i].Digest != y[i].Digest || x[i].Size != y[i].Size || !bytes.Equal(x[i].Data, y[i].Data) {
					e.Violation("setter", "layers-not-roundtrip", "after %s layer %d differs after parsing back", step, i)
					return false
				}
			}
			cx, errx := im.GetConfig()
			cy, erry := back.(manifest.Imager).GetConfig()
			if (errx == nil) != (erry == nil) || cx.Digest != cy.Digest || !bytes.Equal(cx.Data, cy.Data) {
				e.Violation("setter", "config-not-roundtrip", "after %s config %s parses back as %s", step, short(cx.Digest.String()), short(cy.Digest.String()))
				return false
			}
		}
		if ix, ok := m.(manifest.Indexer); ok {
			x, _ := ix.GetManifestList()
			y, _ := back.(manifest.Indexer).GetManifestList()
			if len(x) != len(y) {
				e.Violation("setter", "manifest-list-not-roundtrip", "after %s %d entries parse back as %d", step, len(x), len(y))
				return false
			}
		}
		if sj, ok := m.(manifest.Subjecter); ok {
			x, _ := sj.GetSubject()
			y, _ := back.(manifest.Subjecter).GetSubject()
			if (x == nil) != (y == nil) || (x != nil && x.Digest != y.Digest) {
				e.Violation("setter", "subject-not-roundtrip", "after %s the subject does not parse back", step)
				return false
			}
		}
		return true
	}
	nsteps := 1 + e.Choose("gen", 6, "nsteps")
	for i := 0; i < nsteps; i++ {
		var step string
		var serr error
		switch e.Choose("gen", 9, "setter") {
		case 7:
			step = "SetConfig(data only)"
			if im, ok := m.(manifest.Imager); ok {
				if cd, cerr := im.GetConfig(); cerr == nil {
					if len(cd.Data) > 0 {
						cd.Data = nil
					} else {
						for _, x := range nodes {
							for _, b := range x.Blobs {
								if b.Desc.Digest == cd.Digest.String() {
									cd.Data = b.Data
								}
							}
						}
						if len(cd.Data) == 0 {
							cd.Data = []byte("{}")
						}
					}
					serr = im.SetConfig(cd)
				}
			}
		case 8:
			step = "SetLayers(data only)"
			if im, ok := m.(manifest.Imager); ok {
				if dl, lerr := im.GetLayers(); lerr == nil && len(dl) > 0 {
					k := e.Choose("gen", len(dl), "layer")
					if len(dl[k].Data) > 0 {
						dl[k].Data = nil
					} else {
						dl[k].Data = []byte("inline")
					}
					serr = im.SetLayers(dl)
				}
			}
		case 0:
			step = "SetAnnotation"
			if a, ok := m.(manifest.Annotator); ok {
				serr = a.SetAnnotation("org.example.k"+strconv.Itoa(e.Choose("gen", 3, "k")), "v"+strconv.Itoa(e.Choose("gen", 50, "v")))
			}
		case 1:
			step = "SetAnnotation(delete)"
			if a, ok := m.(manifest.Annotator); ok {
				serr = a.SetAnnotation("org.example.k"+strconv.Itoa(e.Choose("gen", 3, "k")), "")
			}
		case 2:
			step = "SetConfig"
			if im, ok := m.(manifest.Imager); ok {
				serr = im.SetConfig(mkDesc(other.Blobs[0]))
			}
		case 3:
			step = "SetLayers"
			if im, ok := m.(manifest.Imager); ok {
				var dl []descriptor.Descriptor
				for _, b := range other.Blobs[1:] {
					dl = append(dl, mkDesc(b))
				}
				if e.Choose("gen", 2, "keep") == 1 {
					old, _ := im.GetLayers()
					dl = append(old, dl...)
				}
				serr = im.SetLayers(dl)
			}
		case 4:
			step = "SetManifestList"
			if ix, ok := m.(manifest.Indexer); ok {
				dl, _ := ix.GetManifestList()
				dl = append(dl, descriptor.Descriptor{MediaType: other.MediaType, Digest: digest.Digest(other.Digest), Size: int64(len(other.Raw))})
				if e.Choose("gen", 2, "drop") == 1 && len(dl) > 1 {
					dl = dl[1:]
				}
				serr = ix.SetManifestList(dl)
			}
		case 5:
			step = "SetSubject"
			if sj, ok := m.(manifest.Subjecter); ok {
				if e.Choose("gen", 3, "clear") == 2 {
					serr = sj.SetSubject(nil)
				} else {
					serr = sj.SetSubject(&descriptor.Descriptor{MediaType: other.MediaType, Digest: digest.Digest(other.Digest), Size: int64(len(other.Raw))})
				}
			}
		case 6:
			step = "SetOrig"
			switch o := m.GetOrig().(type) {
			case v1.Manifest:
				o.Annotations = map[string]string{"replaced": strconv.Itoa(i)}
				// the structure handed in may lack the media type (legal in OCI 1.0) or carry one left over from a conversion
				switch e.Choose("gen", 4, "origMediaType") {
				case 2:
					o.MediaType = ""
					e.Probe("setorig-without-or-with-foreign-media-type")
				case 3:
					o.MediaType = gen.MTDockerMan
					e.Probe("setorig-without-or-with-foreign-media-type")
				}
				serr = m.SetOrig(o)
			case v1.Index:
				o.Annotations = map[string]string{"replaced": strconv.Itoa(i)}
				switch e.Choose("gen", 4, "origMediaType") {
				case 2:
					o.MediaType = ""
					e.Probe("setorig-without-or-with-foreign-media-type")
				case 3:
					o.MediaType = gen.MTDockerList
					e.Probe("setorig-without-or-with-foreign-media-type")
				}
				serr = m.SetOrig(o)
			default:
				serr = m.SetOrig(m.GetOrig())
			}
		}
		prog = append(prog, step)
		if serr != nil {
			e.Probe("setter-refused")
			continue
		}
		e.Probe("setter:" + step)
		if !check(step) {
			break
		}
	}
	sample := map[string]any{"mode": "B: setter program", "manifest": n.Kind + " " + n.MediaType, "program": prog}
	e.SetCase(fmt.Sprintf("B|%v|%s", prog, n.Digest), true, sample)
	if e.Failed() {
		return
	}
	// push by digest: the registry recomputes the digest itself
	rc := w.Client()
	d := m.GetDescriptor()
	if err := rc.ManifestPut(ctx, mustRef("rec.test/edit/app@"+d.Digest.String()), m); err != nil {
		e.Violation("setter", "push-by-digest-rejected", "after %v the registry rejected the push by digest %s: %v", prog, short(d.Digest.String()), err)
		return
	}
	if rec.Repos["edit/app"] == nil || rec.Repos["edit/app"].Manifests[d.Digest.String()] == nil {
		e.Violation("setter", "push-by-digest-lost", "pushed by digest %s but the registry does not hold it", short(d.Digest.String()))
	}
	e.Probe("edited-and-pushed")
}
