package props

import (
	"context"
	"fmt"
	"os"
	"path/filepath"
	"sort"
	"strings"

	"github.com/regclient/regclient"
	"github.com/regclient/regclient/internal/verif/core"
	"github.com/regclient/regclient/internal/verif/gen"
	"github.com/regclient/regclient/internal/verif/oracle"
	"github.com/regclient/regclient/internal/verif/regmodel"
	"github.com/regclient/regclient/internal/verif/simnet"
	"github.com/regclient/regclient/internal/verif/simos"
	"github.com/regclient/regclient/internal/verif/simrt"
)

// C08: layout GC never removes reachable content and never runs under a copy.
//
// 1-3 tasks run tape-drawn programs of copies into one layout, tag and
// manifest deletions, referrer pushes/deletions and closes through one
// client. Every file removal issued by a Close is judged at the moment it
// happens, through the disk seam: the file must not be reachable from the
// index as it is then, and no ImageCopy into the layout may be in progress.
func init() {
	core.Register(&core.Prop{ID: "C08", Run: runC08, MaxSteps: 400000})
}

type c08Op struct {
	Kind string `json:"op"`
	Img  int    `json:"img,omitempty"`
	Tag  string `json:"tag,omitempty"`
	Arg  int    `json:"arg,omitempty"`
}

// reachable computes, with its own JSON walk, everything the index reaches.
func reachable(dir string) map[string]bool {
	st := oracle.LayoutStore{Dir: dir}
	out := map[string]bool{}
	walked := map[string]bool{} // manifests walked; not the same as "marked": a digest may be a layer of one manifest and a manifest elsewhere
	var visit func(d string)
	visit = func(d string) {
		if walked[d] {
			return
		}
		walked[d] = true
		out[d] = true
		raw, _, ok := st.Manifest(d)
		if !ok {
			return
		}
		for _, r := range regmodel.ContentRefs(raw) {
			if r.Manifest || r.Field == "manifests" {
				visit(r.Digest)
			} else {
				out[r.Digest] = true
			}
		}
	}
	for _, d := range st.IndexDigests() {
		visit(d)
	}
	return out
}

func runC08(e *core.Env) {
	ctx := context.Background()
	dir := e.TempDir()
	base := "ocidir://" + dir
	disk := &simos.Disk{Root: dir}
	simos.Use(disk)
	defer simos.Use(nil)
	w := newWorld(e)
	src := w.AddReg("src.test")
	src.K.Referrers = e.Choose("gen", 2, "refapi") == 0
	g := gen.New(e.Tape)
	g.MaxBlob = 100
	g.NoExt = true
	var imgs []*gen.Graph
	for i := 0; i < 3; i++ {
		// (every other case steers the third image towards the rare shape the copy postpones: a referrer that lists its own subject)
		gr := g.Graph(gen.Opts{NoDigestTags: true, NoExternal: true, Loops: true, ForceLoop: i == 2 && e.Choose("gen", 2, "forceloop") == 1})
		gr.Install(src, "proj/app", fmt.Sprintf("i%d", i))
		imgs = append(imgs, gr)
	}
	// a fourth image: an artifact that carries the bytes of another image's top manifest as its layer (what
	// tools that archive or attest manifests store); the same digest is then a layer of one tag and a
	// manifest of another
	{
		carried := imgs[1+e.Choose("gen", 2, "carried")].Root
		car := g.ArtifactCarrying(carried.Raw, carried.MediaType, "application/vnd.example.manifest-archive")
		cg := &gen.Graph{Root: car, Shape: "artifact-carrying-manifest", Alg: g.Alg, DigestTags: map[string]*gen.Node{}}
		cg.Install(src, "proj/app", "i3")
		imgs = append(imgs, cg)
	}
	// the layout already holds image 0 under the tag "pre" (as an earlier run left it): copying it there again
	// finds everything in place and writes nothing
	if err := imgs[0].InstallLayout(dir, "pre", true); err != nil {
		panic(err)
	}
	rc := w.Client()
	tags := []string{"a", "b", "c"}
	nt := 1 + e.Choose("gen", 3, "tasks")
	progs := make([][]c08Op, nt)
	kinds := []string{"copy", "copy", "retag-in-layout", "copy-present", "copy-referrers", "copy-sparse", "tag-delete", "manifest-delete", "push-referrer", "delete-referrer", "close", "close"}
	for t := range progs {
		for i, n := 0, 2+e.Choose("gen", 4, "ops"); i < n; i++ {
			op := c08Op{Kind: kinds[e.Choose("gen", len(kinds), "kind")], Img: e.Choose("gen", len(imgs), "img"), Tag: tags[e.Choose("gen", len(tags), "tag")], Arg: e.Choose("gen", 2, "arg")}
			progs[t] = append(progs[t], op)
		}
	}
	e.SetCase(fmt.Sprintf("%v|%s|%s|%s|%s", progs, imgs[0].Root.Digest, imgs[1].Root.Digest, imgs[2].Root.Digest, imgs[3].Root.Digest), true,
		map[string]any{"tasks": progs, "images": []any{imgs[0].Describe(), imgs[1].Describe(), imgs[2].Describe(), imgs[3].Describe()}})

	// a copy counts as in progress from its first I/O (network or disk, by its task or a descendant)
	// until it returns: before that it cannot have anything in flight
	active := map[string]bool{} // root task of a running ImageCopy -> has done I/O
	markIO := func(task string) {
		for r := range active {
			if task == r || strings.HasPrefix(task, r+".") {
				active[r] = true
			}
		}
	}
	disk.OnCall = func(op, task string) { markIO(task) }
	w.Net.Hook = func(x *simnet.Exchange) *simnet.Fault { markIO(x.Task); return nil }
	inClose := map[string]bool{}
	neverCopied := map[string]bool{} // children left out by a sparse copy, by design
	gcRemovals := 0
	removedByGC := map[string]bool{} // digests a Close removed at some point of the run
	disk.OnMutation = func(en simos.Entry) {
		if en.Op != "remove" || !strings.HasPrefix(en.Abs, dir+"/blobs/") {
			return
		}
		if !inClose[en.Task] {
			return // an explicit manifest/blob delete, not the collector
		}
		gcRemovals++
		rel := strings.TrimPrefix(en.Abs, dir+"/blobs/")
		parts := strings.Split(rel, "/")
		if len(parts) != 2 {
			return
		}
		d := parts[0] + ":" + parts[1]
		removedByGC[d] = true
		for r, started := range active {
			if started {
				e.Violation("gc-under-copy", "gc-under-copy", "Close (task %s) removed %s while the ImageCopy of task %s into the layout was in progress", en.Task, short(d), r)
				break
			}
		}
		if reachable(dir)[d] {
			e.Violation("gc-reachable", "gc-removed-reachable", "Close (task %s) removed %s although the index reaches it", en.Task, short(d))
		}
	}
	pushedRefs := map[int][]*gen.Node{}
	doOp := func(op c08Op) {
		me := simrt.TaskID()
		simrt.Event("%s: %s img=%d tag=%s", me, op.Kind, op.Img, op.Tag)
		var err error
		switch op.Kind {
		case "copy", "copy-referrers", "copy-sparse":
			var opts []regclient.ImageOpts
			if op.Kind == "copy-referrers" {
				opts = append(opts, regclient.ImageWithReferrers())
			}
			if op.Kind == "copy-sparse" {
				opts = append(opts, regclient.ImageWithPlatforms([]string{"linux/amd64"}))
				for _, c := range imgs[op.Img].Root.Children {
					if c.Platform == nil || c.Platform.OS != "linux" || c.Platform.Architecture != "amd64" {
						gen.Walk(c, func(x *gen.Node) {
							neverCopied[x.Digest] = true
							for _, b := range x.Blobs {
								neverCopied[b.Desc.Digest] = true
							}
						})
					}
				}
				for _, b := range imgs[op.Img].Root.BlobKids {
					neverCopied[b.Desc.Digest] = true // entries without a platform are left out as well
				}
			}
			active[me] = false
			err = rc.ImageCopy(ctx, mustRef(fmt.Sprintf("src.test/proj/app:i%d", op.Img)), mustRef(base+":"+op.Tag), opts...)
			delete(active, me)
			e.Probe("copy")
		case "retag-in-layout":
			// a copy whose source and target are this layout: between reading the source manifest and writing the
			// new tag the content hangs on the source tag alone, which another task may delete meanwhile
			from := []string{"pre", "a", "b", "c"}[(op.Img+op.Arg)%4]
			if from != op.Tag {
				active[me] = false
				err = rc.ImageCopy(ctx, mustRef(base+":"+from), mustRef(base+":"+op.Tag))
				delete(active, me)
				e.Probe("retag-within-layout")
			}
		case "copy-present":
			// a copy that finds its target up to date and writes nothing
			active[me] = false
			err = rc.ImageCopy(ctx, mustRef("src.test/proj/app:i0"), mustRef(base+":pre"))
			delete(active, me)
			e.Probe("copy-of-present-image")
		case "tag-delete":
			err = rc.TagDelete(ctx, mustRef(base+":"+op.Tag))
		case "manifest-delete":
			var o []regclient.ManifestOpts
			if op.Arg == 1 {
				o = append(o, regclient.WithManifestCheckReferrers())
			}
			err = rc.ManifestDelete(ctx, mustRef(base+"@"+imgs[op.Img].Root.Digest), o...)
			if err == nil {
				// (generated images may share a manifest: what the user deleted by digest is not demanded below another tag)
				neverCopied[imgs[op.Img].Root.Digest] = true
			}
		case "push-referrer":
			// a referrer is added by copying it by digest (a bare BlobPut+ManifestPut sequence is not
			// an image copy and enjoys no protection from a concurrent Close: not this property's business)
			if l := imgs[op.Img].Referrers; len(l) > 0 {
				art := l[op.Arg%len(l)]
				active[me] = false
				err = rc.ImageCopy(ctx, mustRef("src.test/proj/app@"+art.Digest), mustRef(base+"@"+art.Digest))
				delete(active, me)
				pushedRefs[op.Img] = append(pushedRefs[op.Img], art)
				e.Probe("referrer-added")
			}
		case "delete-referrer":
			if l := pushedRefs[op.Img]; len(l) > 0 {
				art := l[len(l)-1]
				pushedRefs[op.Img] = l[:len(l)-1]
				err = rc.ManifestDelete(ctx, mustRef(base+"@"+art.Digest), regclient.WithManifestCheckReferrers())
			}
		case "close":
			inClose[me] = true
			err = rc.Close(ctx, mustRef(base))
			inClose[me] = false
			e.Probe("close")
		}
		simrt.Event("%s: %s returned %v", me, op.Kind, err)
	}
	doneCh := make(chan struct{})
	left := nt
	for t := range progs {
		prog := progs[t]
		simrt.Go(func() {
			defer func() {
				left--
				if left == 0 {
					close(doneCh)
				}
			}()
			for _, op := range prog {
				doOp(op)
			}
		})
	}
	<-doneCh
	simrt.Yield("joined")
	drainTasks(e, 10)
	if gcRemovals > 0 {
		e.Probe("gc-removed-files")
	}
	if nt > 1 {
		e.Probe("concurrent-tasks")
	}
	// final phase: plant a leftover temp file and an unreachable blob, modify the layout, close:
	// a collection runs now (nothing is in progress) and must remove what is unreachable
	_ = os.MkdirAll(filepath.Join(dir, "blobs", "sha256"), 0o755)
	_ = os.WriteFile(filepath.Join(dir, "blobs", "sha256", "leftover.123.tmp"), []byte("tmp"), 0o644)
	stray := regmodel.Digest("sha256", []byte("stray unreachable blob"))
	_ = gen.LayoutFile(dir, stray, []byte("stray unreachable blob"))
	if _, err := os.Stat(filepath.Join(dir, "index.json")); err != nil {
		return // nothing was ever written to the layout
	}
	fin := g.Image(false)
	if err := pushNode(ctx, rc, base, fin, "final", false); err != nil {
		e.Violation("vacuity", "final-push-failed", "final push failed: %v", err)
		return
	}
	me := simrt.TaskID()
	inClose[me] = true
	err := rc.Close(ctx, mustRef(base))
	inClose[me] = false
	simrt.Event("final close returned %v", err)
	disk.OnMutation = nil
	simos.Use(nil)
	if err != nil {
		e.Probe("final-close-error")
		return
	}
	reach := reachable(dir)
	var left2 []string
	for _, alg := range []string{"sha256", "sha512"} {
		ents, _ := os.ReadDir(filepath.Join(dir, "blobs", alg))
		for _, en := range ents {
			if !reach[alg+":"+en.Name()] {
				left2 = append(left2, alg+"/"+en.Name())
			}
		}
	}
	if len(left2) > 0 {
		sort.Strings(left2)
		what := "unreachable-content-left"
		for _, l := range left2 {
			if strings.HasSuffix(l, ".tmp") {
				what = "tmp-file-left"
			}
		}
		// (diagnostics: which stored files mention a file that was left)
		var mention []string
		for _, l := range left2 {
			hex := l[strings.IndexByte(l, '/')+1:]
			ents, _ := os.ReadDir(filepath.Join(dir, "blobs", "sha256"))
			for _, en := range ents {
				if b, err := os.ReadFile(filepath.Join(dir, "blobs", "sha256", en.Name())); err == nil && len(hex) > 16 && strings.Contains(string(b), hex) {
					mention = append(mention, short("sha256:"+en.Name())+" mentions "+short("sha256:"+hex)+fmt.Sprintf(" (reachable=%v): %.700s", reach["sha256:"+en.Name()], b))
				}
			}
		}
		e.Violation("gc-collects", what, "a collection ran with nothing in progress, yet %d unreachable files remain: %s; tags %v; %s", len(left2), strings.Join(left2, ", "), oracle.TagSnapshot(dir), strings.Join(mention, "; "))
	}
	// every tag still resolves to content that is all there (children a sparse copy left out excepted)
	st := oracle.LayoutStore{Dir: dir}
	for _, t := range st.Tags() {
		d, _ := st.Tag(t)
		all, _, _ := oracle.Closure(st, d, oracle.WalkOpts{})
		var needs []oracle.Need
		for _, n := range all {
			if !neverCopied[n.Digest] {
				needs = append(needs, n)
			}
		}
		// what is missing below a tag is this property's business when the collector took it away; content that was
		// never there (a copy that trusted a manifest the layout held already - possibly only as the layer of the
		// artifact carrying it - is C03's "trusted to be complete" clause) is not
		for _, n := range needs {
			var present bool
			if n.Manifest {
				_, _, present = st.Manifest(n.Digest)
			} else {
				_, present = st.Blob(n.Digest)
			}
			if present {
				continue
			}
			if removedByGC[n.Digest] {
				e.Violation("end-state", "tag-content-missing", "at the end tag %s: %s (%s) is missing and a Close had removed it", t, short(n.Digest), n.Why)
			} else {
				e.Probe("content-below-a-tag-never-stored")
			}
		}
		raw, _, _ := st.Manifest(d)
		for _, r := range regmodel.ContentRefs(raw) {
			if r.Manifest && !neverCopied[r.Digest] {
				if _, _, ok := st.Manifest(r.Digest); !ok && removedByGC[r.Digest] {
					e.Violation("end-state", "tag-child-missing", "at the end tag %s lacks child manifest %s, which a Close had removed", t, short(r.Digest))
				}
			}
		}
	}
}
