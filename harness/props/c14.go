package props

import (
	"context"
	"fmt"
	"strings"

	"github.com/regclient/regclient"
	"github.com/regclient/regclient/internal/verif/core"
	"github.com/regclient/regclient/internal/verif/gen"
	"github.com/regclient/regclient/internal/verif/regmodel"
	"github.com/regclient/regclient/internal/verif/simrt"
)

// C14: copy transfers only what the target lacks. Oracle over the request
// log of a fault-free copy with default options.
func init() {
	core.Register(&core.Prop{ID: "C14", Run: runC14, MaxSteps: 300000})
}

func runC14(e *core.Env) {
	c := genCopyCase(e, copyGenOpts{defaultOptsOnly: true})
	defer c.done()
	c.watch()
	rc := c.w.Client()
	s, t := c.refs()
	// optional history before the measured copy, through the same client: a copy from a repository
	// for which the registry declines mounts (per-repository permissions)
	warm := (c.pairing == "same-registry" || c.pairing == "same-repository") && e.Choose("gen", 3, "warmup") == 2
	if warm {
		c.src.K.MountDeclineFrom = "restricted/"
		wg := gen.New(e.Tape)
		wg.MaxBlob = 40
		wgr := wg.Graph(gen.Opts{NoReferrers: true, NoDigestTags: true})
		wgr.Install(c.src, "restricted/base", "v1")
		werr := rc.ImageCopy(context.Background(), mustRef(c.src.Name+"/restricted/base:v1"), mustRef(c.src.Name+"/warm/base:v1"))
		drainTasks(e, 20)
		simrt.Event("warm-up copy returned %v", werr)
		e.Probe("warm-up-with-declined-mounts")
	}
	// "copying onto a target that already holds the identical image writes nothing at all" is not limited to the
	// default options: when the target holds the image with its referrers and digest-tags, a copy that asks
	// for them finds everything in place as well
	// (only where both sides record referrers the same way: a layout or API-less registry keeps fallback tags, which
	// the copy carries over to a target that has none of them - then the target was not identical to begin with)
	sameRefStyle := (c.src != nil && c.tgt != nil && c.src.K.Referrers == c.tgt.K.Referrers) || (c.src == nil && c.tgt == nil)
	if c.preState == "complete" && sameRefStyle && e.Choose("gen", 2, "identicalWithOpts") == 1 {
		switch e.Choose("gen", 3, "identicalOpts") {
		case 0:
			c.opts = append(c.opts, regclient.ImageWithReferrers())
			c.optNames = append(c.optNames, "referrers")
		case 1:
			c.opts = append(c.opts, regclient.ImageWithDigestTags())
			c.optNames = append(c.optNames, "digest-tags")
		case 2:
			c.opts = append(c.opts, regclient.ImageWithReferrers(), regclient.ImageWithDigestTags())
			c.optNames = append(c.optNames, "referrers", "digest-tags")
		}
		e.Probe("identical-target-with-options")
	}
	logStart := len(c.w.Net.Log)
	e.SetCase(c.key()+fmt.Sprint(warm), true, c.describe())
	simrt.Event("ImageCopy %s -> %s pre=%s", s.CommonName(), t.CommonName(), c.preState)
	c.writes = nil
	err := rc.ImageCopy(context.Background(), s, t, c.opts...)
	simrt.Event("ImageCopy returned %v", err)
	drainTasks(e, 20)
	e.Probe("pairing:" + c.pairing)
	e.Probe("pre:" + c.preState)
	if err != nil {
		e.Violation("vacuity", "faultfree-copy-failed", "fault-free default copy failed (%s, %s): %v", c.pairing, c.preState, err)
		return
	}
	// blob sizes by digest (hosted blobs of the source image)
	size := map[string]int{}
	hosted := map[string]bool{}
	for _, n := range c.gr.AllNodes() {
		for _, b := range append(append([]*gen.Blob{}, n.Blobs...), n.BlobKids...) {
			size[b.Desc.Digest] = len(b.Data)
			if b.Hosted && !b.External {
				hosted[b.Desc.Digest] = true
			}
		}
	}
	srcBlobPrefix := "/v2/" + c.srcRepo + "/blobs/"
	tgtBlobPrefix := "/v2/" + c.tgtRepo + "/blobs/"
	srcName, tgtName := "-", "-"
	if c.src != nil {
		srcName = c.src.Name
	}
	if c.tgt != nil {
		tgtName = c.tgt.Name
	}
	downloads := map[string]int{}
	uploaded := map[string]int{} // body bytes sent per upload session url
	upBytesTotal := 0
	blobReqs, manifestPuts, writes := 0, 0, 0
	sessionDigest := map[string]string{}
	for _, x := range c.w.Net.Log[logStart:] {
		if strings.Contains(x.Path, "/blobs/") {
			blobReqs++
		}
		if x.Method != "GET" && x.Method != "HEAD" {
			writes++
		}
		if x.Method == "PUT" && strings.Contains(x.Path, "/manifests/") && x.Host == tgtName {
			manifestPuts++
		}
		// body downloads from the source repository
		if x.Host == srcName && x.Method == "GET" && strings.HasPrefix(x.Path, srcBlobPrefix) && !strings.Contains(x.Path, "/uploads/") && x.Status >= 200 && x.Status < 300 {
			d := strings.TrimPrefix(x.Path, srcBlobPrefix)
			downloads[d]++
			if c.preBlob[d] && c.pairing != "same-repository" {
				e.Violation("download-existing", "downloaded-blob-present-at-target", "request #%d downloaded %s from the source although the target repository already held it when the copy started", x.Seq, short(d))
			}
			if c.pairing == "same-registry" && c.src.K.Mount == 0 && hosted[d] && !strings.HasPrefix(c.srcRepo, "restricted/") {
				e.Violation("mount", "download-despite-mount", "request #%d downloaded %s although source and target share a registry that grants mounts", x.Seq, short(d))
			}
		}
		// body uploads into the target repository
		if x.Host == tgtName && (x.Method == "PATCH" || x.Method == "PUT") && strings.HasPrefix(x.Path, tgtBlobPrefix+"uploads/") && x.Delivered {
			uploaded[x.Path] += len(x.ReqBody)
			upBytesTotal += len(x.ReqBody)
			if x.Method == "PUT" {
				if i := strings.Index(x.Query, "digest="); i >= 0 {
					sessionDigest[x.Path] = x.Query[i:]
				}
			}
		}
	}
	for d, n := range downloads {
		if n > 1 {
			e.Violation("once", "blob-downloaded-twice", "blob %s was downloaded %d times from the source", short(d), n)
		}
	}
	// per digest at most one body upload: the journal's blob commits give the digest per session; count bytes per digest
	committed := map[string]int{}
	for _, w := range c.writes {
		if w.Kind == "blob" {
			committed[w.Digest]++
		}
	}
	expectBytes := 0
	for d, n := range committed {
		if n > 1 {
			e.Violation("once", "blob-uploaded-twice", "blob %s was committed %d times at the target", short(d), n)
		}
		expectBytes += size[d]
		// on one registry that grants mounts, what the source repository holds arrives by mount, not by upload
		if c.pairing == "same-registry" && c.src.K.Mount == 0 && hosted[d] && !strings.HasPrefix(c.srcRepo, "restricted/") {
			e.Violation("mount", "upload-despite-mount", "blob %s (%d bytes) was uploaded into %s although the source repository on the same registry holds it and the registry grants mounts", short(d), size[d], c.tgtRepo)
		}
		if c.preBlob[d] {
			e.Violation("once", "uploaded-blob-present-at-target", "blob %s was uploaded although the target repository already held it", short(d))
		}
	}
	if c.tgt != nil && upBytesTotal > expectBytes {
		e.Violation("once", "upload-bytes-exceed", "%d body bytes were uploaded for blobs totalling %d bytes", upBytesTotal, expectBytes)
	}
	if c.pairing == "layout-to-layout" || c.pairing == "registry-to-layout" {
		e.Probe("layout-target")
	}
	if c.pairing == "same-repository" {
		if blobReqs != 0 {
			e.Violation("retag", "retag-touched-blobs", "retag within one repository issued %d blob requests", blobReqs)
		}
		want := 1
		if c.preTags[c.tgtTag] == c.gr.Root.Digest {
			want = 0 // the target tag already named this very manifest (a generated "stale" image can be identical to the source): nothing to write
		}
		if manifestPuts != want {
			e.Violation("retag", "retag-manifest-puts", "retag within one repository wrote %d manifests, want exactly %d", manifestPuts, want)
		}
		e.Probe("retag")
	}
	if c.preState == "complete" || c.preState == "complete-plain" {
		if writes != 0 {
			e.Violation("identical", "identical-target-written", "target already held the identical image, yet %d state-changing requests were sent", writes)
		}
		if len(c.writes) != 0 {
			e.Violation("identical", "identical-target-written", "target already held the identical image, yet %d writes reached it (first: %s %s)", len(c.writes), c.writes[0].Kind, short(c.writes[0].Digest))
		}
		e.Probe("identical-target")
	}
	mounts := 0
	for _, w := range c.writes {
		if w.Kind == "mount" {
			mounts++
		}
	}
	if mounts > 0 {
		e.Probe("mounted")
		if c.tgt != nil && c.tgt.K.MountNoLocation {
			e.Probe("mount-granted-without-location")
		}
	}
	if len(downloads) > 0 {
		e.Probe("downloaded")
	}
	_ = regmodel.IsDigest
}
