package props

import (
	"context"
	"encoding/json"
	"errors"
	"fmt"
	"os"
	"path/filepath"
	"sort"
	"strings"
	"time"

	"github.com/anishathalye/porcupine"

	"github.com/regclient/regclient"
	"github.com/regclient/regclient/internal/verif/core"
	"github.com/regclient/regclient/internal/verif/gen"
	"github.com/regclient/regclient/internal/verif/oracle"
	"github.com/regclient/regclient/internal/verif/simrt"
	"github.com/regclient/regclient/types/errs"
)

// C06: tags behave as a name->digest map; deleting a tag removes only that tag.
//
// Sequential mode: a history of pushes, tag/manifest deletions and reads over
// a pool of 3 tags x 3 manifests; after every step list/head/get must equal a
// reference map. Concurrent mode: 2-4 tasks on one client; the recorded
// invoke/return history is checked for linearizability against the same model.
func init() {
	core.Register(&core.Prop{ID: "C06", Run: runC06, MaxSteps: 400000})
}

type c06Op struct {
	Kind string `json:"op"`
	T    int    `json:"tag"`
	M    int    `json:"manifest"`
	Flag bool   `json:"referrer_check,omitempty"`
}

type c06State struct {
	Tags map[string]string
	Mans map[string]bool
}

func (s c06State) clone() c06State {
	n := c06State{Tags: map[string]string{}, Mans: map[string]bool{}}
	for k, v := range s.Tags {
		n.Tags[k] = v
	}
	for k := range s.Mans {
		n.Mans[k] = true
	}
	return n
}

func (s c06State) key() string {
	var ks []string
	for k, v := range s.Tags {
		ks = append(ks, k+"="+v[7:15])
	}
	sort.Strings(ks)
	var ms []string
	for m := range s.Mans {
		ms = append(ms, m[7:15])
	}
	sort.Strings(ms)
	return strings.Join(ks, ",") + "|" + strings.Join(ms, ",")
}

// c06Out is what an operation reported.
type c06Out struct {
	Err    bool
	Digest string   // head/get
	List   []string // list
}

// apply is the reference model. ok=false: the output is impossible in this state.
func c06Apply(s c06State, tags []string, mans []string, op c06Op, out c06Out, placeholders bool) (bool, c06State) {
	t, m := tags[op.T], mans[op.M]
	n := s
	switch op.Kind {
	case "push-tag":
		if out.Err {
			return true, s // a failed write leaves the state (no faults are injected: it should not fail, checked separately)
		}
		n = s.clone()
		n.Tags[t] = m
		n.Mans[m] = true
	case "push-digest":
		if out.Err {
			return true, s
		}
		n = s.clone()
		n.Mans[m] = true
	case "tag-delete":
		_, has := s.Tags[t]
		if out.Err {
			return !has, s
		}
		if !has {
			// registries: the documented fall-back (push a placeholder, delete it) makes two overlapping
			// deletes of one tag both report success; accepted in the concurrent model only
			return placeholders, s
		}
		n = s.clone()
		delete(n.Tags, t)
	case "manifest-delete":
		if out.Err {
			return !s.Mans[m], s
		}
		if !s.Mans[m] {
			return false, s
		}
		n = s.clone()
		delete(n.Mans, m)
		for k, v := range s.Tags {
			if v == m {
				delete(n.Tags, k)
			}
		}
	case "head", "get":
		d, has := s.Tags[t]
		if out.Err {
			return !has, s
		}
		if out.Digest == "placeholder" {
			return placeholders, s
		}
		return has && d == out.Digest, s
	case "list":
		if out.Err {
			return len(s.Tags) == 0, s
		}
		var want []string
		for k := range s.Tags {
			want = append(want, k)
		}
		sort.Strings(want)
		return strings.Join(want, ",") == strings.Join(out.List, ","), s
	}
	return true, n
}

func runC06(e *core.Env) {
	ctx := context.Background()
	w := newWorld(e)
	g := gen.New(e.Tape)
	g.MaxBlob = 60
	g.NoExt = true
	var nodes []*gen.Node
	var mans []string
	for i := 0; i < 3; i++ {
		n := g.Image(i == 2)
		nodes = append(nodes, n)
		mans = append(mans, n.Digest)
	}
	// (one tag name is a proper suffix of another: a lookup by suffix must not confuse them)
	tags := []string{"t0", "t1", "xt0"}
	useLayout := e.Choose("gen", 3, "endpoint") == 2
	ep := &endpoint{}
	foreign := false
	state := c06State{Tags: map[string]string{}, Mans: map[string]bool{}}
	dupInit := false
	if useLayout {
		ep.dir = e.TempDir()
		for _, n := range nodes {
			for _, b := range n.Blobs {
				_ = gen.LayoutFile(ep.dir, b.Desc.Digest, b.Data)
			}
		}
		_ = gen.LayoutSetTags(ep.dir, nil)
		if e.Choose("gen", 3, "foreign") == 2 {
			// a layout written by another tool: full image names in ref.name, duplicate and untagged entries
			foreign = true
			type en struct {
				MediaType   string            `json:"mediaType"`
				Digest      string            `json:"digest"`
				Size        int               `json:"size"`
				Annotations map[string]string `json:"annotations,omitempty"`
			}
			mk := func(n *gen.Node, name string) en {
				x := en{MediaType: n.MediaType, Digest: n.Digest, Size: len(n.Raw)}
				if name != "" {
					x.Annotations = map[string]string{"org.opencontainers.image.ref.name": name}
				}
				return x
			}
			for _, n := range nodes {
				_ = gen.LayoutFile(ep.dir, n.Digest, n.Raw)
				state.Mans[n.Digest] = true
			}
			var ents []en
			// (the registry part of a full name may carry a port)
			ents = append(ents, mk(nodes[0], []string{"docker.io/library/app:t0", "localhost:5000/proj/app:t0"}[e.Choose("gen", 2, "fullnameport")]))
			state.Tags["t0"] = nodes[0].Digest
			switch e.Choose("gen", 3, "dups") {
			case 1:
				// the same tag twice, adjacent, same manifest
				ents = append(ents, mk(nodes[1], "t1"), mk(nodes[1], "t1"))
				state.Tags["t1"] = nodes[1].Digest
				dupInit = true
			case 2:
				ents = append(ents, mk(nodes[1], "t1"))
				state.Tags["t1"] = nodes[1].Digest
			}
			ents = append(ents, mk(nodes[2], "")) // untagged entry
			b, _ := json.Marshal(map[string]any{"schemaVersion": 2, "mediaType": gen.MTOCIIndex, "manifests": ents})
			_ = os.WriteFile(filepath.Join(ep.dir, "index.json"), b, 0o644)
		}
	} else {
		reg := w.AddReg("reg.test")
		reg.K.TagDelete = e.Choose("gen", 2, "tagdelete") == 0
		reg.K.TagPage = []int{0, 1, 2}[e.Choose("gen", 3, "tagpage")]
		reg.K.LinkSecondLine = e.Choose("gen", 2, "linkline") == 1
		reg.K.TagPageEmptyOnce = reg.K.TagPage > 0 && e.Choose("gen", 3, "emptypage") == 2
		if reg.K.TagPageEmptyOnce {
			e.Probe("paged-listing-with-an-empty-page")
		}
		reg.K.Referrers = e.Choose("gen", 2, "refapi") == 0
		ep.reg, ep.repo = reg, "proj/app"
		for _, n := range nodes {
			for _, b := range n.Blobs {
				reg.Repo(ep.repo).Blobs[b.Desc.Digest] = b.Data
			}
		}
	}
	rc := w.Client()
	concurrent := e.Choose("gen", 3, "concurrent") == 2
	kinds := []string{"push-tag", "push-tag", "push-tag", "push-digest", "tag-delete", "tag-delete", "manifest-delete", "list", "head", "get"}
	genOp := func() c06Op {
		return c06Op{Kind: kinds[e.Choose("gen", len(kinds), "kind")], T: e.Choose("gen", 3, "t"), M: e.Choose("gen", 3, "m"), Flag: e.Choose("gen", 2, "flag") == 1}
	}
	// (the fall-back is also taken on registries with tag deletion when the first DELETE fails, e.g. 404)
	placeholders := !useLayout
	isPool := func(d string) bool {
		for _, m := range mans {
			if m == d {
				return true
			}
		}
		return false
	}
	do := func(op c06Op) c06Out {
		var out c06Out
		t, n := tags[op.T], nodes[op.M]
		var err error
		switch op.Kind {
		case "push-tag":
			m, _ := nodeManifest(n)
			err = rc.ManifestPut(ctx, mustRef(ep.refStr(t)), m)
		case "push-digest":
			m, _ := nodeManifest(n)
			if op.Flag {
				// the manifest object pushed by digest may be one that was fetched through a tag before (as a
				// program that reads :tag and pushes the result @digest does); what it carries from the fetch
				// must not turn the push by digest into a push by tag
				if fm, gerr := rc.ManifestGet(ctx, mustRef(ep.refStr(t))); gerr == nil && fm.GetDescriptor().Digest.String() == n.Digest {
					m = fm
					e.Probe("pushed-by-digest-a-manifest-fetched-by-tag")
				}
			}
			err = rc.ManifestPut(ctx, mustRef(strings.TrimSuffix(ep.refStr("x"), ":x")+"@"+n.Digest), m)
		case "tag-delete":
			err = rc.TagDelete(ctx, mustRef(ep.refStr(t)))
		case "manifest-delete":
			var o []regclient.ManifestOpts
			if op.Flag {
				o = append(o, regclient.WithManifestCheckReferrers())
			}
			dr := mustRef(strings.TrimSuffix(ep.refStr("x"), ":x") + "@" + n.Digest)
			if op.T%2 == 1 {
				// the reference may carry a tag beside the digest (as regctl builds it when it dereferences a tag)
				dr = mustRef(ep.refStr(t)).AddDigest(n.Digest)
				e.Probe("manifest-delete-by-tag+digest-reference")
			}
			err = rc.ManifestDelete(ctx, dr, o...)
		case "head":
			m, herr := rc.ManifestHead(ctx, mustRef(ep.refStr(t)), regclient.WithManifestRequireDigest())
			err = herr
			if err == nil {
				out.Digest = m.GetDescriptor().Digest.String()
			}
		case "get":
			m, gerr := rc.ManifestGet(ctx, mustRef(ep.refStr(t)))
			err = gerr
			if err == nil {
				out.Digest = m.GetDescriptor().Digest.String()
			}
		case "list":
			tl, lerr := rc.TagList(ctx, mustRef(strings.TrimSuffix(ep.refStr("x"), ":x")))
			err = lerr
			if err == nil {
				l, _ := tl.GetTags()
				sort.Strings(l)
				out.List = l
			}
		}
		out.Err = err != nil
		if out.Digest != "" && !isPool(out.Digest) {
			out.Digest = "placeholder"
		}
		if err != nil && (op.Kind == "head" || op.Kind == "get") && !errors.Is(err, errs.ErrNotFound) && !strings.Contains(err.Error(), "not found") {
			simrt.Event("unexpected read error: %v", err)
		}
		return out
	}
	sample := map[string]any{"endpoint": map[bool]string{true: "layout", false: "registry"}[useLayout], "foreign_layout": foreign, "concurrent": concurrent}
	if !useLayout {
		sample["registry"] = fmt.Sprintf("tagDelete=%v tagPage=%d cache=%v", ep.reg.K.TagDelete, ep.reg.K.TagPage, w.Cache)
	}
	st := ep.store()
	writtenTags := map[string]bool{}
	checkIndex := func(after string) {
		if !useLayout {
			return
		}
		b, err := os.ReadFile(filepath.Join(ep.dir, "index.json"))
		if err != nil {
			return
		}
		var ix struct {
			SchemaVersion int               `json:"schemaVersion"`
			Manifests     []json.RawMessage `json:"manifests"`
		}
		if json.Unmarshal(b, &ix) != nil || ix.SchemaVersion != 2 {
			e.Violation("layout-index", "index-invalid", "after %s index.json is not a valid OCI index", after)
			return
		}
		for t, n := range oracle.TagEntryCounts(ep.dir) {
			if n > 1 && (writtenTags[t] || !dupInit) {
				e.Violation("layout-index", "duplicate-tag-entries", "after %s the index has %d entries for tag %s", after, n, t)
			}
		}
	}
	if !concurrent {
		var ops []c06Op
		for i, n := 0, 3+e.Choose("gen", 20, "nops"); i < n; i++ {
			ops = append(ops, genOp())
		}
		sample["history"] = ops
		e.SetCase(fmt.Sprintf("%v|%v|%v", sample, ops, mans), true, sample)
		for i, op := range ops {
			out := do(op)
			simrt.Event("step %d %s t%d m%d -> err=%v digest=%s list=%v", i, op.Kind, op.T, op.M, out.Err, short(out.Digest), out.List)
			ok, next := c06Apply(state, tags, mans, op, out, false)
			where := fmt.Sprintf("step %d %s(%s,%s)", i, op.Kind, tags[op.T], short(mans[op.M]))
			if !ok {
				e.Violation("model", "result-disagrees:"+op.Kind, "%s reported err=%v digest=%s list=%v, impossible for a name->digest map in state {%s}", where, out.Err, short(out.Digest), out.List, state.key())
				return
			}
			if out.Err && (op.Kind == "push-tag" || op.Kind == "push-digest") {
				e.Violation("model", "push-failed", "%s failed on a fault-free endpoint", where)
				return
			}
			state = next
			if op.Kind == "push-tag" && !out.Err {
				writtenTags[tags[op.T]] = true
			}
			e.Probe("op:" + op.Kind)
			if out.Err {
				e.Probe("op-error:" + op.Kind)
			}
			// after every step what the client reports equals the map
			for ti, t := range tags {
				for _, rk := range []string{"head", "get"} {
					ro := do(c06Op{Kind: rk, T: ti})
					if ok, _ := c06Apply(state, tags, mans, c06Op{Kind: rk, T: ti}, ro, false); !ok {
						e.Violation("model", "read-disagrees-after:"+op.Kind, "after %s: %s(%s) reports err=%v digest=%s, the map says {%s}", where, rk, t, ro.Err, short(ro.Digest), state.key())
						return
					}
				}
			}
			lo := do(c06Op{Kind: "list"})
			if ok, _ := c06Apply(state, tags, mans, c06Op{Kind: "list"}, lo, false); !ok {
				// placeholders and fallback tags are not part of the pool: compare pool tags only
				e.Violation("model", "list-disagrees-after:"+op.Kind, "after %s: the tag listing is err=%v %v, the map says {%s}", where, lo.Err, lo.List, state.key())
				return
			}
			// head and get by digest report exactly the set of stored manifests
			for _, md := range mans {
				_, want := state.Mans[md]
				r := mustRef(strings.TrimSuffix(ep.refStr("x"), ":x") + "@" + md)
				_, herr := rc.ManifestHead(ctx, r)
				_, gerr := rc.ManifestGet(ctx, r)
				if (herr == nil) != want || (gerr == nil) != want {
					e.Violation("model", "digest-read-disagrees-after:"+op.Kind, "after %s: head by digest of %s reports err=%v, get err=%v, the set of stored manifests says present=%v", where, short(md), herr, gerr, want)
					return
				}
			}
			e.Probe("digest-reads-checked")
			// stored manifests: deleting a tag never removes the manifest other tags share
			for m := range state.Mans {
				if _, _, ok := st.Manifest(m); !ok {
					e.Violation("model", "manifest-lost-after:"+op.Kind, "after %s manifest %s is gone although the map still holds it", where, short(m))
					return
				}
			}
			checkIndex(where)
		}
		return
	}
	// ---- concurrent mode
	nt := 2 + e.Choose("gen", 3, "tasks")
	progs := make([][]c06Op, nt)
	total := 0
	// a listing that the registry pages takes several requests and cannot be atomic for any client: tags may be
	// deleted between two pages. Paged listings are judged in the sequential mode (completeness); in the concurrent
	// mode a paging registry gets head instead of list operations
	paged := !useLayout && ep.reg.K.TagPage > 0
	for t := range progs {
		for i, n := 0, 1+e.Choose("gen", 3, "nops"); i < n; i++ {
			op := genOp()
			if paged && op.Kind == "list" {
				op.Kind = "head"
			}
			progs[t] = append(progs[t], op)
			total++
		}
	}
	sample["tasks"] = progs
	e.SetCase(fmt.Sprintf("%v|%v|%v", sample, progs, mans), true, sample)
	var history []porcupine.Operation
	clock := int64(0)
	doneCh := make(chan struct{})
	left := nt
	for t := range progs {
		t := t
		simrt.Go(func() {
			defer func() {
				left--
				if left == 0 {
					close(doneCh)
				}
			}()
			for _, op := range progs[t] {
				clock++
				call := clock
				out := do(op)
				clock++
				history = append(history, porcupine.Operation{ClientId: t, Input: op, Call: call, Output: out, Return: clock})
				simrt.Event("task %d %s t%d m%d [%d,%d] -> err=%v digest=%s list=%v", t, op.Kind, op.T, op.M, call, clock, out.Err, short(out.Digest), out.List)
			}
		})
	}
	<-doneCh
	simrt.Yield("joined")
	e.Probe("concurrent-history")
	init := state.clone()
	model := porcupine.Model{
		Init: func() interface{} { return init.clone() },
		Step: func(st, in, out interface{}) (bool, interface{}) {
			ok, n := c06Apply(st.(c06State), tags, mans, in.(c06Op), out.(c06Out), placeholders)
			return ok, n
		},
		Equal: func(a, b interface{}) bool { return a.(c06State).key() == b.(c06State).key() },
	}
	res := porcupine.CheckOperationsTimeout(model, history, 20*time.Second)
	switch res {
	case porcupine.Illegal:
		var hs []string
		for _, h := range history {
			o := h.Output.(c06Out)
			i := h.Input.(c06Op)
			hs = append(hs, fmt.Sprintf("c%d %s(t%d,m%d)[%d,%d]->err=%v,%s,%v", h.ClientId, i.Kind, i.T, i.M, h.Call, h.Return, o.Err, short(o.Digest), o.List))
		}
		e.Violation("linearizable", "history-not-linearizable", "no sequential order of the concurrent operations explains what they reported: %s", strings.Join(hs, "; "))
	case porcupine.Unknown:
		e.Probe("porcupine-unknown")
	default:
		e.Probe("porcupine-ok")
	}
	checkIndex("the concurrent history")
	// at quiescence the reads agree with each other: every tag the list shows resolves
	lo := do(c06Op{Kind: "list"})
	for _, t := range lo.List {
		for ti, name := range tags {
			if name == t {
				if ro := do(c06Op{Kind: "head", T: ti}); ro.Err {
					e.Violation("model", "listed-tag-unresolvable", "at quiescence the listing shows %s but head fails", t)
				}
			}
		}
	}
	// a placeholder must not survive
	for _, t := range lo.List {
		known := false
		for _, name := range tags {
			if name == t {
				known = true
			}
		}
		if !known && !strings.HasPrefix(t, "sha256-") {
			e.Violation("model", "foreign-tag-left", "at quiescence the listing shows tag %s which nobody pushed", t)
		}
	}
	for ti := range tags {
		if ro := do(c06Op{Kind: "head", T: ti}); !ro.Err && ro.Digest == "placeholder" {
			e.Violation("model", "placeholder-survived", "at quiescence tag %s resolves to a manifest outside the pool (a tag-delete placeholder)", tags[ti])
		}
	}
}
