package props

import (
	"bytes"
	"context"
	"fmt"
	"sort"
	"strings"

	"github.com/regclient/regclient/internal/verif/core"
	"github.com/regclient/regclient/internal/verif/gen"
	"github.com/regclient/regclient/internal/verif/oracle"
	"github.com/regclient/regclient/internal/verif/regmodel"
	"github.com/regclient/regclient/internal/verif/simnet"
	"github.com/regclient/regclient/internal/verif/simos"
	"github.com/regclient/regclient/internal/verif/simrt"
)

// C04: children before parents, the tag last; failure never moves the tag.
//
// Base run (no params): fault-free copy; the target model checks the ordering
// invariant at every manifest PUT it accepts, the journal gives tag-last.
// Positional runs (Plan): the same seed with one or two faults of each kind
// at every request position, cancellation at every position, process death
// (frozen network) at every position; then the tag and the written manifests
// are audited.

func init() {
	core.Register(&core.Prop{ID: "C04", Run: runC04, Plan: planC04, MaxSteps: 300000})
}

var c04Kinds = []int{simnet.F500, simnet.F429, simnet.F404, simnet.F401, simnet.FConnReset, simnet.FLostResponse, simnet.FTruncate, simnet.FStall, simnet.F503}

func planC04(base *core.Result, tier string, budget int, rng func(int) int) []core.Params {
	n := base.Info["requests"]
	if n == 0 {
		return nil
	}
	var all []core.Params
	for k := 1; k <= n; k++ {
		for _, kind := range c04Kinds {
			all = append(all, core.Params{"fault_at": k, "fault_kind": kind})
		}
		all = append(all, core.Params{"cancel_at": k})
		all = append(all, core.Params{"crash_at": k})
	}
	if n <= 25 && tier == "thorough" {
		for k1 := 1; k1 <= n; k1++ {
			for k2 := k1 + 1; k2 <= n; k2++ {
				all = append(all, core.Params{"fault_at": k1, "fault_kind": c04Kinds[rng(len(c04Kinds))], "fault_at2": k2, "fault_kind2": c04Kinds[rng(len(c04Kinds))]})
			}
		}
	}
	if budget > 0 && len(all) > budget {
		// sample without replacement; mark the enumeration as partial
		for i := 0; i < budget; i++ {
			j := i + rng(len(all)-i)
			all[i], all[j] = all[j], all[i]
		}
		all = all[:budget]
		all[0]["_partial"] = 1
	}
	if tier != "thorough" && n <= 25 {
		// the quick tier adds a few fault pairs instead of all of them
		for i := 0; i < 6 && n >= 2; i++ {
			k1 := 1 + rng(n-1)
			k2 := k1 + 1 + rng(n-k1)
			all = append(all, core.Params{"fault_at": k1, "fault_kind": c04Kinds[rng(len(c04Kinds))], "fault_at2": k2, "fault_kind2": c04Kinds[rng(len(c04Kinds))], "_partial": 1})
		}
	}
	return all
}

func runC04(e *core.Env) {
	c := genCopyCase(e, copyGenOpts{})
	defer c.done()
	n := c.w.Net
	n.FaultAt, n.FaultKind = e.Param("fault_at"), e.Param("fault_kind")
	n.FaultAt2, n.FaultKind2 = e.Param("fault_at2"), e.Param("fault_kind2")
	n.FreezeAt = e.Param("crash_at")
	n.CancelAt = e.Param("cancel_at")
	ctx, cancel := context.WithCancel(context.Background())
	defer cancel()
	n.Cancel = cancel
	positional := n.FaultAt > 0 || n.FreezeAt > 0 || n.CancelAt > 0
	rootSubject := regmodel.Subject(c.gr.Root.Raw)
	tgtAPI := c.tgt != nil && c.tgt.K.Referrers

	tgtS := c.tgtEP.store()
	// online invariant: evaluated at every manifest the target accepts (registry: at the PUT, by the
	// model; layout: at the rename of the manifest file into place, through the disk seam)
	written := map[string]bool{}
	c.onManifest = func(seq int, dig string, raw []byte) {
		written[dig] = true
		for _, r := range regmodel.ContentRefs(raw) {
			if r.External {
				continue // external layers are optional content even when asked for (see C03)
			}
			ok := false
			if r.Manifest {
				_, _, ok = tgtS.Manifest(r.Digest)
			} else {
				_, ok = tgtS.Blob(r.Digest)
			}
			if !ok {
				what := "blob"
				if r.Manifest {
					what = "manifest"
				}
				e.Violation("order", "parent-before-"+what, "write #%d put manifest %s into %s before its %s %s (%s) was there",
					seq, short(dig), tgtS.Name(), what, short(r.Digest), r.Field)
			}
		}
	}
	c.watch()
	if c.tgtEP.isLayout() && n.FreezeAt > 0 {
		// process death takes the disk with it: it is frozen when the network is
		n.OnFreeze = func() { c.disk.FreezeNow() }
	}
	rc := c.w.Client()
	s, t := c.refs()
	e.SetCase(c.key()+"|"+core.Params(e.Tape.Params).String(), true, map[string]any{"copy": c.describe(), "plan": core.Params(e.Tape.Params).String()})
	simrt.Event("ImageCopy %s opts=%v pre=%s plan=%s", c.pairing, c.optNames, c.preState, core.Params(e.Tape.Params).String())
	err := rc.ImageCopy(ctx, s, t, c.opts...)
	simrt.Event("ImageCopy returned %v", err)
	reqs := len(n.Log)
	// tasks still running after an error return are allowed to finish so that their late writes are seen
	drainTasks(e, 30)
	if c.disk != nil {
		c.disk.OnMutation = nil
		if c.disk.Frozen {
			// restart: the audit reads the surviving directory
			simos.Use(nil)
		}
	}
	e.Info("requests", reqs)
	for k, v := range n.Fired {
		for i := 0; i < v; i++ {
			e.Fault(k)
		}
	}
	if n.FreezeAt > 0 && n.Frozen {
		e.Fault("crash")
	}
	journal := c.writes
	// tag-last: nothing reaches the target after the write of the requested tag
	tagIdx := -1
	for i, w := range journal {
		if w.Kind == "tag" && w.Tag == c.tgtTag {
			tagIdx = i
		}
	}
	if tagIdx >= 0 {
		tagSeq := journal[tagIdx].Seq
		for _, w := range journal[tagIdx+1:] {
			if w.Seq == tagSeq {
				continue
			}
			// exemption fixed in DESIGN §4 C04: the spec-mandated fallback-tag update for the
			// top-level manifest's own subject on a target without the referrers API
			if rootSubject != "" && !tgtAPI && isFallbackWrite(journal, w, rootSubject) {
				e.Probe("tag-then-fallback-tag(exempt)")
				continue
			}
			fp, note := "write-after-tag:"+w.Kind, ""
			if loopWrite(c.gr, journal, w) {
				// a referrer that is an index over its own subject: ImageCopy postpones its copy until after everything else
				fp, note = "write-after-tag:postponed-loop-referrer", " (belongs to a referrer that lists its own subject as a child)"
			}
			e.Violation("tag-last", fp, "after the requested tag %s was written (write #%d) the copy still wrote %s %s %s (write #%d)%s",
				c.tgtTag, tagSeq, w.Kind, short(w.Digest), w.Tag, w.Seq, note)
		}
	}
	finalDelivered := tagIdx >= 0
	cur, has := tgtS.Tag(c.tgtTag)
	pre, hadPre := c.preTags[c.tgtTag]
	if err != nil || positional {
		if err != nil {
			e.Probe("copy-failed")
		} else {
			e.Probe("copy-ok-despite-fault")
		}
	}
	if err != nil && !finalDelivered {
		// failure before the final write: the tag resolves to what it resolved to before
		if has != hadPre || cur != pre {
			e.Violation("tag-moved", "tag-moved-on-failure", "copy failed (%v) without the final tag write being delivered, yet %s:%s moved from %q to %q", err, tgtS.Name(), c.tgtTag, pre, cur)
		}
	}
	if err != nil && finalDelivered {
		e.Probe("final-put-delivered-but-error")
	}
	if err == nil {
		if !has || !sameContent(tgtS, cur, c.gr.Root) {
			e.Violation("tag", "success-without-tag", "copy returned nil but the tag resolves to %q", cur)
		}
	}
	// whatever was written remains a set of complete images: every manifest written during the copy has its content
	var wl []string
	for d := range written {
		wl = append(wl, d)
	}
	sort.Strings(wl)
	for _, d := range wl {
		raw, _, ok := tgtS.Manifest(d)
		if !ok {
			continue
		}
		if miss := oracle.ContentComplete(tgtS, raw); len(miss) > 0 {
			e.Violation("complete-after", "written-manifest-incomplete", "manifest %s written during the copy lacks %s at the end (err=%v)", short(d), strings.Join(miss, ", "), err)
		}
	}
	// a caller that sees the copy fail tries again with the same client (its caches as the failed copy left
	// them); the ordering invariant keeps being judged at every manifest the target accepts, and what the second
	// copy writes must be complete as well. Not after process death (the client is gone) and not when a fault is
	// still pending.
	if err != nil && !(n.FreezeAt > 0) && (c.disk == nil || !c.disk.Frozen) && !e.Failed() {
		before := len(wl)
		if c.disk != nil {
			simos.Use(c.disk)
		}
		c.watch()
		simrt.Event("ImageCopy again with the same client")
		err2 := rc.ImageCopy(context.Background(), s, t, c.opts...)
		simrt.Event("second ImageCopy returned %v", err2)
		drainTasks(e, 30)
		if c.disk != nil {
			c.disk.OnMutation = nil
		}
		e.Probe("retried-with-same-client")
		if err2 == nil {
			e.Probe("retry-succeeded")
			if cur, has := tgtS.Tag(c.tgtTag); !has || !sameContent(tgtS, cur, c.gr.Root) {
				e.Violation("tag", "retry-success-without-tag", "the repeated copy returned nil but the tag resolves to %q", cur)
			}
		}
		wl = wl[:0]
		for d := range written {
			wl = append(wl, d)
		}
		sort.Strings(wl)
		for _, d := range wl {
			raw, _, ok := tgtS.Manifest(d)
			if !ok {
				continue
			}
			if miss := oracle.ContentComplete(tgtS, raw); len(miss) > 0 {
				e.Violation("complete-after", "written-manifest-incomplete-after-retry", "manifest %s written during the failed or the repeated copy lacks %s at the end (first err=%v, second err=%v)", short(d), strings.Join(miss, ", "), err, err2)
			}
		}
		if len(wl) > before {
			e.Probe("retry-wrote-manifests")
		}
	}
	e.Probe("pairing:" + c.pairing)
	if positional {
		switch {
		case n.FreezeAt > 0:
			e.Probe("plan:crash")
		case n.CancelAt > 0:
			e.Probe("plan:cancel")
		case n.FaultAt2 > 0:
			e.Probe("plan:double-fault")
		default:
			e.Probe("plan:fault:" + simnet.FaultNames[n.FaultKind])
		}
	}
}

func short(d string) string {
	if len(d) > 19 {
		return d[:19]
	}
	return d
}

func isFallbackWrite(journal []wev, w wev, subject string) bool {
	ft := regmodel.FallbackTag(subject)
	if w.Kind == "tag" && w.Tag == ft {
		return true
	}
	if w.Kind == "manifest" {
		for _, o := range journal {
			// (on a registry the list is put by tag in one request; in a layout its file is renamed into place first)
			if o.Kind == "tag" && o.Tag == ft && (o.Seq == w.Seq || o.Digest == w.Digest) {
				return true
			}
		}
	}
	return false
}

// loopWrite: the graph has a referrer that lists its own subject as a child, and the write belongs to what
// ImageCopy postpones because of it: that referrer, or - when the referrer list itself is copied as a digest-tag -
// the whole list with every referrer in it, the content they bring along, and the referrer-list maintenance.
func loopWrite(gr *gen.Graph, journal []wev, w wev) bool {
	if !gr.Loop {
		return false
	}
	inRoot := map[string]bool{}
	gen.Walk(gr.Root, func(n *gen.Node) {
		inRoot[n.Digest] = true
		for _, b := range append(append([]*gen.Blob{}, n.Blobs...), n.BlobKids...) {
			inRoot[b.Desc.Digest] = true
		}
	})
	own := map[string]bool{}
	var subjects []string
	for _, r := range gr.Referrers {
		subjects = append(subjects, r.Subject)
		gen.Walk(r, func(n *gen.Node) {
			subjects = append(subjects, n.Digest)
			if !inRoot[n.Digest] {
				own[n.Digest] = true
			}
			for _, b := range append(append([]*gen.Blob{}, n.Blobs...), n.BlobKids...) {
				if !inRoot[b.Desc.Digest] {
					own[b.Desc.Digest] = true
				}
			}
		})
	}
	if own[w.Digest] && w.Kind != "tag" {
		return true
	}
	for _, sd := range subjects {
		if isFallbackWrite(journal, w, sd) {
			return true
		}
	}
	return false
}

func sameContent(st oracle.Store, d string, n *gen.Node) bool {
	raw, _, ok := st.Manifest(d)
	return ok && bytes.Equal(raw, n.Raw)
}

var _ = fmt.Sprint
