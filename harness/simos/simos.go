// Package simos is the disk seam: in the instrumented copy the packages that
// touch layouts and output directories import it in place of "os". Calls go
// to the real kernel file system (no in-memory model to get wrong) but are
// counted, logged, made scheduling points, and can be frozen at a chosen
// mutating call ("process death": that call and everything after it has no
// effect), torn, or failed with an injected error.
package simos

import (
	"errors"
	"io"
	"io/fs"
	"os"
	"path/filepath"
	"strconv"
	"strings"
	"sync"
	"syscall"
	"time"

	"github.com/regclient/regclient/internal/verif/simrt"
)

var ErrCrashed = errors.New("simos: process is dead")

// Entry is one logged call.
type Entry struct {
	Seq   int
	Mut   int // index among mutating calls (1-based), 0 for reads
	Op    string
	Path  string // resolved path, relative to Root when below it ($ROOT/…)
	Path2 string // rename target
	Abs   string // resolved absolute path (not logged)
	Abs2  string
	N     int
	Err   string
	Task  string
	At    time.Duration
}

func (e Entry) String() string {
	s := e.Op + " " + e.Path
	if e.Path2 != "" {
		s += " -> " + e.Path2
	}
	if e.Op == "write" {
		s += " (" + strconv.Itoa(e.N) + "B)"
	}
	if e.Err != "" {
		s += " ERR " + e.Err
	}
	return s
}

// Disk is the per-run state of the seam.
type Disk struct {
	mu           sync.Mutex
	Root         string // logs show paths relative to it as $ROOT/…
	Log          []Entry
	Muts         int
	FreezeAt     int // freeze when the mutating-call counter reaches this (1-based); 0: never
	Torn         int // when the frozen call is a write: 0 nothing written, 1 one byte, 2 half, 3 all but one byte
	Frozen       bool
	FailAt       int // inject FailErr at this mutating call (the call has no effect)
	FailErr      error
	ShortWriteAt int // this mutating call, if a write, writes half and returns io.ErrShortWrite
	tmpSeq       int
	Quiet        bool // no yields / sleeps (set-up phases)
	CrashedAt    string
	seq          int
	// OnMutation runs after a mutating call took effect (before it returns to the caller).
	OnMutation func(e Entry)
	// OnCall runs at the start of every call (reads too) with the calling task's id.
	OnCall func(op, task string)
}

var cur *Disk
var curMu sync.Mutex

// Use installs d as the active disk (nil: plain pass-through).
func Use(d *Disk) {
	curMu.Lock()
	cur = d
	curMu.Unlock()
}

func get() *Disk {
	curMu.Lock()
	defer curMu.Unlock()
	return cur
}

func (d *Disk) rel(p string) string {
	if d.Root != "" && strings.HasPrefix(p, d.Root) {
		return "$ROOT" + p[len(d.Root):]
	}
	return p
}

// Resolve makes p absolute and resolves symlinks in every component but the last.
func Resolve(p string) string {
	if p == "" {
		return p
	}
	a, err := filepath.Abs(p)
	if err != nil {
		return p
	}
	dir, base := filepath.Split(a)
	dir = filepath.Clean(dir)
	// resolve the longest existing prefix of dir
	rest := ""
	for {
		r, err := filepath.EvalSymlinks(dir)
		if err == nil {
			dir = r
			break
		}
		parent, last := filepath.Split(dir)
		parent = filepath.Clean(parent)
		if parent == dir {
			break
		}
		rest = filepath.Join(last, rest)
		dir = parent
	}
	return filepath.Join(dir, rest, base)
}

func (d *Disk) point(kind string) {
	if d.Quiet || !simrt.Active() {
		return
	}
	// every disk call costs strictly positive simulated time and is a scheduling point
	time.Sleep(time.Duration(1+d.seq%50) * time.Microsecond)
	simrt.Yield("disk-" + kind)
}

// begin registers a call. ok=false: the call must have no effect and return err.
func (d *Disk) begin(op, path, path2 string, mut bool, size ...int) (idx int, ok bool, err error) {
	d.point(op)
	if oc := d.OnCall; oc != nil {
		oc(op, simrt.TaskID())
	}
	d.mu.Lock()
	defer d.mu.Unlock()
	d.seq++
	e := Entry{Seq: d.seq, Op: op, Abs: Resolve(path), Task: simrt.TaskID()}
	e.Path = d.rel(e.Abs)
	if len(size) > 0 {
		e.N = size[0]
	}
	if path2 != "" {
		e.Abs2 = Resolve(path2)
		e.Path2 = d.rel(e.Abs2)
	}
	if s := simrt.Cur(); s != nil {
		e.At = s.Elapsed()
	}
	if d.Frozen {
		e.Err = "dead"
		d.Log = append(d.Log, e)
		return len(d.Log) - 1, false, ErrCrashed
	}
	if mut {
		d.Muts++
		e.Mut = d.Muts
		if d.FreezeAt > 0 && d.Muts >= d.FreezeAt {
			d.Frozen = true
			d.CrashedAt = e.String()
			e.Err = "CRASH"
			d.Log = append(d.Log, e)
			simrt.Event("disk CRASH before #%d %s", e.Mut, e.String())
			return len(d.Log) - 1, false, ErrCrashed
		}
		if d.FailAt > 0 && d.Muts == d.FailAt && d.FailErr != nil {
			e.Err = d.FailErr.Error()
			d.Log = append(d.Log, e)
			simrt.Event("disk FAIL #%d %s", e.Mut, e.String())
			return len(d.Log) - 1, false, &fs.PathError{Op: op, Path: path, Err: d.FailErr}
		}
	}
	d.Log = append(d.Log, e)
	if mut {
		simrt.Event("disk #%d %s", e.Mut, e.String())
	}
	return len(d.Log) - 1, true, nil
}

func (d *Disk) end(idx int, n int, err error) {
	d.mu.Lock()
	var en Entry
	if idx >= 0 && idx < len(d.Log) {
		d.Log[idx].N = n
		if err != nil && d.Log[idx].Err == "" {
			d.Log[idx].Err = err.Error()
		}
		en = d.Log[idx]
	}
	hook := d.OnMutation
	d.mu.Unlock()
	if hook != nil && en.Mut > 0 && err == nil {
		hook(en)
	}
}

// FreezeNow kills the "process" immediately (used when the network seam decides the instant of death).
func (d *Disk) FreezeNow() {
	d.mu.Lock()
	d.Frozen = true
	if d.CrashedAt == "" {
		d.CrashedAt = "process death decided by the network seam"
	}
	d.mu.Unlock()
}

// Mutations returns the mutating entries logged so far.
func (d *Disk) Mutations() []Entry {
	d.mu.Lock()
	defer d.mu.Unlock()
	var out []Entry
	for _, e := range d.Log {
		if e.Mut > 0 {
			out = append(out, e)
		}
	}
	return out
}

// ---- the os API surface used by the shimmed packages ----

type (
	FileInfo  = os.FileInfo
	FileMode  = os.FileMode
	DirEntry  = os.DirEntry
	PathError = os.PathError
	Signal    = os.Signal
	LinkError = os.LinkError
)

var (
	ErrNotExist   = os.ErrNotExist
	ErrExist      = os.ErrExist
	ErrPermission = os.ErrPermission
	ErrInvalid    = os.ErrInvalid
	ErrClosed     = os.ErrClosed
	Interrupt     = os.Interrupt
	Kill          = os.Kill
	Args          = os.Args
)

const (
	O_RDONLY = os.O_RDONLY
	O_WRONLY = os.O_WRONLY
	O_RDWR   = os.O_RDWR
	O_APPEND = os.O_APPEND
	O_CREATE = os.O_CREATE
	O_EXCL   = os.O_EXCL
	O_SYNC   = os.O_SYNC
	O_TRUNC  = os.O_TRUNC

	ModeDir       = os.ModeDir
	ModeSymlink   = os.ModeSymlink
	ModePerm      = os.ModePerm
	ModeType      = os.ModeType
	PathSeparator = os.PathSeparator
	DevNull       = os.DevNull
)

// File mirrors *os.File.
type File struct {
	f    *os.File
	path string
	std  bool
}

var (
	Stdin  = &File{f: os.Stdin, std: true}
	Stdout = &File{f: os.Stdout, std: true}
	Stderr = &File{f: os.Stderr, std: true}
)

func wrap(f *os.File, path string, err error) (*File, error) {
	if err != nil {
		return nil, err
	}
	return &File{f: f, path: path}, nil
}

func (f *File) Name() string { return f.f.Name() }
func (f *File) Fd() uintptr  { return f.f.Fd() }
func (f *File) Stat() (os.FileInfo, error) {
	if d := get(); d != nil && !f.std {
		if d.isFrozen() {
			return nil, ErrCrashed
		}
	}
	return f.f.Stat()
}
func (f *File) Close() error {
	return f.f.Close()
}
func (f *File) Read(b []byte) (int, error) {
	if d := get(); d != nil && !f.std {
		if d.isFrozen() {
			return 0, ErrCrashed
		}
	}
	return f.f.Read(b)
}
func (f *File) ReadAt(b []byte, off int64) (int, error) { return f.f.ReadAt(b, off) }
func (f *File) Seek(o int64, w int) (int64, error)      { return f.f.Seek(o, w) }
func (f *File) Sync() error                             { return f.f.Sync() }
func (f *File) Readdir(n int) ([]os.FileInfo, error)    { return f.f.Readdir(n) }
func (f *File) ReadDir(n int) ([]os.DirEntry, error)    { return f.f.ReadDir(n) }
func (f *File) Readdirnames(n int) ([]string, error)    { return f.f.Readdirnames(n) }
func (f *File) Chmod(m os.FileMode) error               { return f.f.Chmod(m) }
func (f *File) WriteString(s string) (int, error)       { return f.Write([]byte(s)) }
func (f *File) Truncate(size int64) error {
	d := get()
	if d == nil || f.std {
		return f.f.Truncate(size)
	}
	idx, ok, err := d.begin("truncate", f.path, "", true)
	if !ok {
		return err
	}
	err = f.f.Truncate(size)
	d.end(idx, 0, err)
	return err
}

func (d *Disk) isFrozen() bool {
	d.mu.Lock()
	defer d.mu.Unlock()
	return d.Frozen
}

func (f *File) Write(b []byte) (int, error) {
	d := get()
	if d == nil || f.std {
		return f.f.Write(b)
	}
	idx, ok, err := d.begin("write", f.path, "", true, len(b))
	if !ok {
		if errors.Is(err, ErrCrashed) && d.CrashedAt != "" && d.Log[idx].Err == "CRASH" && len(b) > 0 {
			// torn write: a prefix reaches the disk before the process dies
			n := 0
			switch d.Torn {
			case 1:
				n = 1
			case 2:
				n = len(b) / 2
			case 3:
				n = len(b) - 1
			}
			if n > len(b) {
				n = len(b)
			}
			if n > 0 {
				_, _ = f.f.Write(b[:n])
				d.end(idx, n, nil)
			}
		}
		return 0, err
	}
	if d.ShortWriteAt > 0 && d.Log[idx].Mut == d.ShortWriteAt && len(b) > 1 {
		n, _ := f.f.Write(b[:len(b)/2])
		d.end(idx, n, io.ErrShortWrite)
		return n, io.ErrShortWrite
	}
	n, err := f.f.Write(b)
	d.end(idx, n, err)
	return n, err
}

// ReadFrom is deliberately not implemented so that io.Copy goes through Write.

func Open(name string) (*File, error) {
	d := get()
	if d == nil {
		return wrap2(os.Open(name))(name)
	}
	idx, ok, err := d.begin("open", name, "", false)
	if !ok {
		return nil, err
	}
	f, err := os.Open(name)
	d.end(idx, 0, err)
	return wrap(f, name, err)
}

func wrap2(f *os.File, err error) func(string) (*File, error) {
	return func(name string) (*File, error) { return wrap(f, name, err) }
}

func Create(name string) (*File, error) {
	d := get()
	if d == nil {
		return wrap2(os.Create(name))(name)
	}
	idx, ok, err := d.begin("create", name, "", true)
	if !ok {
		return nil, err
	}
	f, err := os.Create(name)
	d.end(idx, 0, err)
	return wrap(f, name, err)
}

func OpenFile(name string, flag int, perm os.FileMode) (*File, error) {
	d := get()
	if d == nil {
		return wrap2(os.OpenFile(name, flag, perm))(name)
	}
	mut := flag&(os.O_CREATE|os.O_TRUNC|os.O_APPEND|os.O_WRONLY|os.O_RDWR) != 0
	op := "open"
	if mut {
		op = "openfile"
	}
	idx, ok, err := d.begin(op, name, "", mut && flag&(os.O_CREATE|os.O_TRUNC) != 0)
	if !ok {
		return nil, err
	}
	f, err := os.OpenFile(name, flag, perm)
	d.end(idx, 0, err)
	return wrap(f, name, err)
}

func CreateTemp(dir, pattern string) (*File, error) {
	d := get()
	if d == nil {
		return wrap2(os.CreateTemp(dir, pattern))("")
	}
	if dir == "" {
		dir = os.TempDir()
	}
	// deterministic names: the "*" is replaced by a per-run counter
	d.mu.Lock()
	d.tmpSeq++
	n := d.tmpSeq
	d.mu.Unlock()
	name := pattern + strconv.Itoa(n)
	if i := strings.LastIndexByte(pattern, '*'); i >= 0 {
		name = pattern[:i] + "v" + strconv.Itoa(n) + pattern[i+1:]
	}
	full := filepath.Join(dir, name)
	idx, ok, err := d.begin("createtemp", full, "", true)
	if !ok {
		return nil, err
	}
	f, err := os.OpenFile(full, os.O_RDWR|os.O_CREATE|os.O_EXCL, 0o600)
	d.end(idx, 0, err)
	return wrap(f, full, err)
}

func MkdirTemp(dir, pattern string) (string, error) {
	d := get()
	if d == nil {
		return os.MkdirTemp(dir, pattern)
	}
	if dir == "" {
		dir = os.TempDir()
	}
	d.mu.Lock()
	d.tmpSeq++
	n := d.tmpSeq
	d.mu.Unlock()
	name := pattern + strconv.Itoa(n)
	if i := strings.LastIndexByte(pattern, '*'); i >= 0 {
		name = pattern[:i] + "v" + strconv.Itoa(n) + pattern[i+1:]
	}
	full := filepath.Join(dir, name)
	idx, ok, err := d.begin("mkdir", full, "", true)
	if !ok {
		return "", err
	}
	err = os.Mkdir(full, 0o700)
	d.end(idx, 0, err)
	return full, err
}

func Mkdir(p string, m os.FileMode) error {
	d := get()
	if d == nil {
		return os.Mkdir(p, m)
	}
	idx, ok, err := d.begin("mkdir", p, "", true)
	if !ok {
		return err
	}
	err = os.Mkdir(p, m)
	d.end(idx, 0, err)
	return err
}

func MkdirAll(p string, m os.FileMode) error {
	d := get()
	if d == nil {
		return os.MkdirAll(p, m)
	}
	if fi, err := os.Stat(p); err == nil && fi.IsDir() {
		// nothing to create: not a mutation
		_, ok, err := d.begin("mkdirall-noop", p, "", false)
		if !ok {
			return err
		}
		return nil
	}
	idx, ok, err := d.begin("mkdirall", p, "", true)
	if !ok {
		return err
	}
	err = os.MkdirAll(p, m)
	d.end(idx, 0, err)
	return err
}

func Rename(a, b string) error {
	d := get()
	if d == nil {
		return os.Rename(a, b)
	}
	idx, ok, err := d.begin("rename", a, b, true)
	if !ok {
		return err
	}
	err = os.Rename(a, b)
	d.end(idx, 0, err)
	return err
}

func Remove(p string) error {
	d := get()
	if d == nil {
		return os.Remove(p)
	}
	idx, ok, err := d.begin("remove", p, "", true)
	if !ok {
		return err
	}
	err = os.Remove(p)
	d.end(idx, 0, err)
	return err
}

func RemoveAll(p string) error {
	d := get()
	if d == nil {
		return os.RemoveAll(p)
	}
	idx, ok, err := d.begin("removeall", p, "", true)
	if !ok {
		return err
	}
	err = os.RemoveAll(p)
	d.end(idx, 0, err)
	return err
}

func WriteFile(name string, data []byte, perm os.FileMode) error {
	d := get()
	if d == nil {
		return os.WriteFile(name, data, perm)
	}
	// os.WriteFile is open(O_TRUNC) followed by write: two mutations
	f, err := OpenFile(name, os.O_WRONLY|os.O_CREATE|os.O_TRUNC, perm)
	if err != nil {
		return err
	}
	_, err = f.Write(data)
	if err1 := f.Close(); err1 != nil && err == nil {
		err = err1
	}
	return err
}

func Symlink(old, new string) error {
	d := get()
	if d == nil {
		return os.Symlink(old, new)
	}
	idx, ok, err := d.begin("symlink", new, "", true)
	if !ok {
		return err
	}
	err = os.Symlink(old, new)
	d.end(idx, 0, err)
	return err
}

func Link(old, new string) error {
	d := get()
	if d == nil {
		return os.Link(old, new)
	}
	idx, ok, err := d.begin("link", new, "", true)
	if !ok {
		return err
	}
	err = os.Link(old, new)
	d.end(idx, 0, err)
	return err
}

func Chmod(name string, m os.FileMode) error {
	d := get()
	if d == nil {
		return os.Chmod(name, m)
	}
	idx, ok, err := d.begin("chmod", name, "", true)
	if !ok {
		return err
	}
	err = os.Chmod(name, m)
	d.end(idx, 0, err)
	return err
}

func Chtimes(name string, a, m time.Time) error {
	d := get()
	if d == nil {
		return os.Chtimes(name, a, m)
	}
	idx, ok, err := d.begin("chtimes", name, "", true)
	if !ok {
		return err
	}
	err = os.Chtimes(name, a, m)
	d.end(idx, 0, err)
	return err
}

func read(op, p string) (*Disk, int, error) {
	d := get()
	if d == nil {
		return nil, -1, nil
	}
	idx, ok, err := d.begin(op, p, "", false)
	if !ok {
		return d, idx, err
	}
	return d, idx, nil
}

func Stat(p string) (os.FileInfo, error) {
	if _, _, err := read("stat", p); err != nil {
		return nil, err
	}
	return os.Stat(p)
}
func Lstat(p string) (os.FileInfo, error) {
	if _, _, err := read("lstat", p); err != nil {
		return nil, err
	}
	return os.Lstat(p)
}
func ReadDir(p string) ([]os.DirEntry, error) {
	if _, _, err := read("readdir", p); err != nil {
		return nil, err
	}
	return os.ReadDir(p)
}
func ReadFile(p string) ([]byte, error) {
	if _, _, err := read("readfile", p); err != nil {
		return nil, err
	}
	return os.ReadFile(p)
}
func Readlink(p string) (string, error) { return os.Readlink(p) }

func IsNotExist(err error) bool         { return os.IsNotExist(err) }
func IsExist(err error) bool            { return os.IsExist(err) }
func IsPermission(err error) bool       { return os.IsPermission(err) }
func Getenv(k string) string            { return os.Getenv(k) }
func LookupEnv(k string) (string, bool) { return os.LookupEnv(k) }
func Setenv(k, v string) error          { return os.Setenv(k, v) }
func Environ() []string                 { return os.Environ() }
func Getwd() (string, error)            { return os.Getwd() }
func TempDir() string                   { return os.TempDir() }
func UserHomeDir() (string, error)      { return os.UserHomeDir() }
func Exit(code int)                     { os.Exit(code) }
func Getpid() int                       { return os.Getpid() }
func Getuid() int                       { return os.Getuid() }
func Getgid() int                       { return os.Getgid() }
func Hostname() (string, error)         { return os.Hostname() }
func DirFS(dir string) fs.FS            { return os.DirFS(dir) }
func SameFile(a, b os.FileInfo) bool    { return os.SameFile(a, b) }
func Executable() (string, error)       { return os.Executable() }

var ENOSPC error = syscall.ENOSPC
var EIO error = syscall.EIO
