// Package simnet is the simulated network: an http.RoundTripper that delivers
// requests to in-process host models, costs simulated time, logs every
// exchange and injects faults decided by the tape or by a positional plan.
// The real net/http.Client (redirect following, header handling) still runs
// on top of it; only http.Transport (sockets, TLS) is replaced.
package simnet

import (
	"bytes"
	"context"
	"errors"
	"fmt"
	"io"
	"net/http"
	"strconv"
	"strings"
	"time"

	"github.com/regclient/regclient/internal/verif/simrt"
)

// Request is what a host model sees.
type Request struct {
	Seq    int
	Method string
	Scheme string
	Host   string
	Path   string
	Query  string
	Header http.Header
	Body   []byte
}

// Response is what a host model answers.
type Response struct {
	Status int
	Header http.Header
	Body   []byte
}

func NewResponse(status int) *Response { return &Response{Status: status, Header: http.Header{}} }

// Host is a party on the simulated network. Serve runs atomically.
type Host interface {
	Serve(req *Request) *Response
}

// Exchange is one logged request/response.
type Exchange struct {
	Seq       int
	Sent      time.Duration // RoundTrip entered
	At        time.Duration // delivered at the host
	RespAt    time.Duration // response handed to the client
	BodyErrAt time.Duration // the client's read hit the injected truncation (0: not yet / never)
	Task      string
	Method    string
	Scheme    string
	Host      string
	Path      string
	Query     string
	ReqHeader http.Header
	ReqBody   []byte
	Delivered bool // the host model processed the request
	Status    int  // status the client saw (0: transport error)
	RespHdr   http.Header
	RespLen   int
	Fault     string
	Redirect  bool // follow-up of a redirect (req.Response != nil)
	NotSent   bool // the transport refused to send it (no host in the URL): nothing left the machine
	Err       string
}

func (x *Exchange) String() string {
	q := ""
	if x.Query != "" {
		q = "?" + x.Query
	}
	f := ""
	if x.Fault != "" {
		f = " fault=" + x.Fault
	}
	return fmt.Sprintf("#%d %s %s %s://%s%s%s -> %d%s", x.Seq, x.Task, x.Method, x.Scheme, x.Host, x.Path, q, x.Status, f)
}

// Fault kinds (positional plan and random injection share this alphabet).
const (
	FNone = iota
	FConnReset
	FLostResponse
	F500
	F503
	F429
	F429RetryAfter
	F404
	F401
	FTruncate
	FStall
	F502
	F504
	F408
	F416
	F403
	NumFaultKinds
)

var FaultNames = []string{"none", "conn-reset", "lost-response", "http-500", "http-503", "http-429", "http-429-retry-after", "http-404", "http-401",
	"body-truncate", "body-stall", "http-502", "http-504", "http-408", "http-416", "http-403"}

// Fault is a decision for one exchange.
type Fault struct {
	Kind     int
	TruncAt  int           // FTruncate: bytes delivered before the cut (clamped)
	Stall    time.Duration // FStall
	RetrySec int           // F429RetryAfter
}

// Net is the simulated network of one run.
type Net struct {
	Tape  *simrt.Tape
	Hosts map[string]Host
	Log   []*Exchange
	seq   int

	// latency in microseconds, log-uniform between Min and Max
	LatMinUS, LatMaxUS int
	HostSlow           map[string]int // per-host multiplier

	// random fault injection: per-exchange probability Rate/1000 of a fault
	// drawn from Enabled (kinds). Zero rate: no random faults.
	Rate    int
	Enabled []int
	// Filter limits random and positional faults to matching exchanges.
	Filter func(x *Exchange) bool
	// MaxFaults bounds the number of injected faults in the run (0: unbounded).
	MaxFaults int
	injected  int
	// Positional plan: inject kind FaultKind at exchange number FaultAt
	// (and FaultKind2 at FaultAt2). Counted over exchanges passing Filter.
	FaultAt, FaultKind   int
	FaultAt2, FaultKind2 int
	eligible             int
	// FreezeAt > 0: process death: exchange number FreezeAt and every later
	// one is not delivered.
	FreezeAt int
	Frozen   bool
	OnFreeze func() // called once when the freeze happens
	// CancelAt > 0: call Cancel when exchange CancelAt is delivered.
	CancelAt int
	Cancel   func()
	// Hook lets a harness decide a fault for an exchange itself (after the
	// plan, before random injection). Return nil for no opinion.
	Hook func(x *Exchange) *Fault
	// Mutate lets a harness rewrite the response a model produced (byzantine
	// servers, corruption). Runs after Serve.
	Mutate func(x *Exchange, r *Response) *Response
	// OnDeliver runs after a host model processed a request (atomically with it).
	OnDeliver func(x *Exchange, req *Request, r *Response)
	// Slice: deliver bodies in tape-chosen slices with (n, EOF) and (0, nil) reads.
	Slice bool
	// Count of faults that actually fired, by name.
	Fired map[string]int
	// SimpleErr: transport errors the client sees
}

func New(t *simrt.Tape) *Net {
	return &Net{Tape: t, Hosts: map[string]Host{}, LatMinUS: 50, LatMaxUS: 50000, HostSlow: map[string]int{}, Fired: map[string]int{}, Slice: true}
}

var ErrReset = errors.New("simnet: connection reset by peer")
var ErrFrozen = errors.New("simnet: process is dead")
var ErrNoHost = errors.New("simnet: no such host")

func (n *Net) latency(host string) time.Duration {
	lo, hi := n.LatMinUS, n.LatMaxUS
	if hi <= lo {
		return time.Duration(lo) * time.Microsecond
	}
	// log-uniform: pick an octave, then a value inside it
	oct := 0
	for v := lo; v*2 <= hi; v *= 2 {
		oct++
	}
	o := n.Tape.Choose("lat", oct+1, "octave")
	base := lo << o
	span := base
	if base+span > hi {
		span = hi - base
	}
	us := base
	if span > 0 {
		us += n.Tape.Choose("lat", span, "lat")
	}
	if m := n.HostSlow[host]; m > 1 {
		us *= m
	}
	return time.Duration(us)*time.Microsecond + time.Duration(n.seq%997)*time.Nanosecond
}

func (n *Net) hop(ctx context.Context, host string) error {
	d := n.latency(host)
	select {
	case <-ctx.Done():
		simrt.Yield("net-cancel")
		return ctx.Err()
	case <-time.After(d):
	}
	simrt.Yield("net")
	return ctx.Err()
}

func (n *Net) decide(x *Exchange) *Fault {
	if n.Filter != nil && !n.Filter(x) {
		return nil
	}
	n.eligible++
	if n.FaultAt > 0 && n.eligible == n.FaultAt && n.FaultKind > 0 {
		return n.mk(n.FaultKind)
	}
	if n.FaultAt2 > 0 && n.eligible == n.FaultAt2 && n.FaultKind2 > 0 {
		return n.mk(n.FaultKind2)
	}
	if n.Hook != nil {
		if f := n.Hook(x); f != nil {
			return f
		}
	}
	if n.Rate > 0 && len(n.Enabled) > 0 && (n.MaxFaults == 0 || n.injected < n.MaxFaults) {
		if n.Tape.Chance("net", n.Rate, 1000, "fault?") {
			k := n.Enabled[n.Tape.Choose("net", len(n.Enabled), "kind")]
			return n.mk(k)
		}
	}
	return nil
}

func (n *Net) mk(kind int) *Fault {
	f := &Fault{Kind: kind}
	switch kind {
	case FTruncate:
		f.TruncAt = n.Tape.Choose("net", 1<<16, "truncAt")
	case FStall:
		f.Stall = time.Duration(1+n.Tape.Choose("net", 120, "stall")) * time.Second
	case F429RetryAfter:
		f.RetrySec = 1 + n.Tape.Choose("net", 120, "retryAfter")
	}
	return f
}

func (n *Net) fire(x *Exchange, name string) {
	n.injected++
	n.Fired[name]++
	x.Fault = name
}

func statusFor(kind int) int {
	switch kind {
	case F500:
		return 500
	case F503:
		return 503
	case F429, F429RetryAfter:
		return 429
	case F404:
		return 404
	case F401:
		return 401
	case F502:
		return 502
	case F504:
		return 504
	case F408:
		return 408
	case F416:
		return 416
	case F403:
		return 403
	}
	return 0
}

// RoundTrip implements http.RoundTripper.
func (n *Net) RoundTrip(req *http.Request) (*http.Response, error) {
	ctx := req.Context()
	n.seq++
	x := &Exchange{Seq: n.seq, Task: simrt.TaskID(), Method: req.Method, Scheme: req.URL.Scheme, Host: req.URL.Host, Path: req.URL.Path,
		Query: req.URL.RawQuery, ReqHeader: req.Header.Clone(), Redirect: req.Response != nil}
	n.Log = append(n.Log, x)
	if s := simrt.Cur(); s != nil {
		x.Sent = s.Elapsed()
	}
	closeBody := func() {
		if req.Body != nil {
			req.Body.Close()
		}
	}
	fail := func(err error) (*http.Response, error) {
		closeBody()
		x.Err = err.Error()
		if s := simrt.Cur(); s != nil {
			x.RespAt = s.Elapsed()
		}
		simrt.Event("%s err=%v", x, err)
		return nil, err
	}
	if req.URL.Host == "" || (req.URL.Scheme != "http" && req.URL.Scheme != "https") {
		// http.Transport refuses such a request before anything is transmitted
		x.NotSent = true
		return fail(errors.New("http: no Host in request URL"))
	}
	if n.FreezeAt > 0 && x.Seq >= n.FreezeAt && !n.Frozen {
		n.Frozen = true
		if n.OnFreeze != nil {
			n.OnFreeze()
		}
	}
	if n.Frozen {
		x.Fault = "frozen"
		return fail(ErrFrozen)
	}
	if err := n.hop(ctx, x.Host); err != nil {
		return fail(err)
	}
	if n.Frozen {
		x.Fault = "frozen"
		return fail(ErrFrozen)
	}
	x.At = simrt.Cur().Elapsed()
	h := n.Hosts[x.Host]
	if h == nil {
		return fail(fmt.Errorf("%w: %s", ErrNoHost, x.Host))
	}
	f := n.decide(x)
	if f != nil && f.Kind == FConnReset {
		n.fire(x, "conn-reset")
		return fail(ErrReset)
	}
	// read the request body the way http.Transport does
	var body []byte
	if req.Body != nil && req.Body != http.NoBody {
		var err error
		body, err = n.readAll(req.Body)
		if err != nil {
			return fail(fmt.Errorf("simnet: reading request body: %w", err))
		}
		if req.ContentLength >= 0 && int64(len(body)) != req.ContentLength {
			return fail(fmt.Errorf("http: ContentLength=%d with Body length %d", req.ContentLength, len(body)))
		}
	} else if req.ContentLength > 0 {
		return fail(fmt.Errorf("http: Request.ContentLength=%d with nil Body", req.ContentLength))
	}
	closeBody()
	x.ReqBody = body
	var r *Response
	if f != nil && statusFor(f.Kind) != 0 {
		// an intermediary answers instead of the host: not delivered
		n.fire(x, FaultNames[f.Kind])
		r = NewResponse(statusFor(f.Kind))
		switch f.Kind {
		case F429RetryAfter:
			r.Header.Set("Retry-After", strconv.Itoa(f.RetrySec))
		case F401:
			// a fresh realm every time: an auth handler with credentials accepts each as a new challenge
			r.Header.Set("WWW-Authenticate", `Basic realm="injected-`+strconv.Itoa(x.Seq)+`"`)
		}
		r.Body = []byte(`{"errors":[{"code":"INJECTED"}]}`)
	} else {
		mreq := &Request{Seq: x.Seq, Method: req.Method, Scheme: x.Scheme, Host: x.Host, Path: x.Path, Query: x.Query, Header: req.Header.Clone(), Body: body}
		if mreq.Header.Get("Host") == "" && req.Host != "" {
			mreq.Header.Set("Host", req.Host)
		}
		r = h.Serve(mreq)
		x.Delivered = true
		if n.OnDeliver != nil {
			n.OnDeliver(x, mreq, r)
		}
		if n.Mutate != nil {
			r = n.Mutate(x, r)
		}
		if n.CancelAt > 0 && x.Seq == n.CancelAt && n.Cancel != nil {
			n.Fired["cancel"]++
			x.Fault = "cancel-here"
			n.Cancel()
		}
	}
	if err := n.hop(ctx, x.Host); err != nil {
		return fail(err)
	}
	if n.Frozen {
		x.Fault = "frozen"
		return fail(ErrFrozen)
	}
	if f != nil && f.Kind == FLostResponse {
		n.fire(x, "lost-response")
		return fail(ErrReset)
	}
	x.Status = r.Status
	x.RespAt = simrt.Cur().Elapsed()
	x.RespHdr = r.Header
	x.RespLen = len(r.Body)
	resp := &http.Response{StatusCode: r.Status, Status: strconv.Itoa(r.Status) + " " + http.StatusText(r.Status), Proto: "HTTP/1.1", ProtoMajor: 1, ProtoMinor: 1,
		Header: r.Header.Clone(), Request: req, ContentLength: int64(len(r.Body))}
	if resp.Header.Get("Content-Length") == "" && req.Method != "HEAD" {
		resp.Header.Set("Content-Length", strconv.Itoa(len(r.Body)))
	}
	if cl := resp.Header.Get("Content-Length"); cl != "" {
		if v, err := strconv.ParseInt(cl, 10, 64); err == nil {
			resp.ContentLength = v
		}
	}
	rb := &respBody{n: n, ctx: ctx, data: r.Body, x: x, truncAt: -1}
	if req.Method == "HEAD" {
		rb.data = nil
	}
	if f != nil && f.Kind == FTruncate && len(rb.data) > 0 {
		rb.truncAt = f.TruncAt % len(rb.data)
		n.fire(x, "body-truncate")
	}
	if f != nil && f.Kind == FStall {
		rb.stall = f.Stall
		n.fire(x, "body-stall")
	}
	// the transport enforces the announced length
	if resp.ContentLength >= 0 && int64(len(rb.data)) > resp.ContentLength && req.Method != "HEAD" {
		rb.data = rb.data[:resp.ContentLength]
	} else if resp.ContentLength > int64(len(rb.data)) && req.Method != "HEAD" {
		rb.short = true
	}
	resp.Body = rb
	simrt.Event("%s", x)
	return resp, nil
}

func (n *Net) readAll(r io.Reader) ([]byte, error) {
	var buf bytes.Buffer
	tmp := make([]byte, 4096)
	for {
		sz := len(tmp)
		if n.Slice {
			sz = 1 + n.Tape.Choose("slice", 4096, "reqslice")
		}
		k, err := r.Read(tmp[:sz])
		buf.Write(tmp[:k])
		if err == io.EOF {
			return buf.Bytes(), nil
		}
		if err != nil {
			return buf.Bytes(), err
		}
	}
}

type respBody struct {
	n       *Net
	ctx     context.Context
	data    []byte
	pos     int
	x       *Exchange
	truncAt int
	stall   time.Duration
	short   bool
	closed  bool
	reads   int
}

func (b *respBody) Read(p []byte) (int, error) {
	if b.closed {
		return 0, errors.New("http: read on closed response body")
	}
	if err := b.ctx.Err(); err != nil {
		return 0, err
	}
	if b.n.Frozen {
		return 0, ErrFrozen
	}
	if b.stall > 0 && b.pos*2 >= len(b.data) {
		d := b.stall
		b.stall = 0
		select {
		case <-b.ctx.Done():
			simrt.Yield("net-cancel")
			return 0, b.ctx.Err()
		case <-time.After(d):
		}
		simrt.Yield("net-stall")
	}
	if len(p) == 0 {
		return 0, nil
	}
	b.reads++
	limit := len(b.data)
	if b.truncAt >= 0 && b.truncAt < limit {
		limit = b.truncAt
	}
	if b.pos >= limit {
		if b.truncAt >= 0 || b.short {
			if b.x.BodyErrAt == 0 {
				b.x.BodyErrAt = simrt.Cur().Elapsed()
			}
			return 0, io.ErrUnexpectedEOF
		}
		return 0, io.EOF
	}
	max := len(p)
	if b.n.Slice {
		// slicing choices: 0 = as much as fits
		c := b.n.Tape.Choose("slice", 8, "respslice")
		switch {
		case c == 1:
			max = 1
		case c == 2 && b.reads%3 == 0:
			simrt.Yield("net-read")
			return 0, nil // legal for an io.Reader
		case c >= 3 && c <= 5:
			max = 1 + b.n.Tape.Choose("slice", len(p), "resplen")
		}
	}
	k := copy(p[:max], b.data[b.pos:limit])
	b.pos += k
	if b.reads%4 == 0 {
		simrt.Yield("net-read")
	}
	if b.pos >= limit && b.truncAt < 0 && !b.short && b.n.Slice && b.n.Tape.Choose("slice", 2, "eofwithdata") == 1 {
		return k, io.EOF
	}
	return k, nil
}

func (b *respBody) Close() error {
	b.closed = true
	return nil
}

// Reset clears per-phase counters so that a positional plan applies to the
// operation under test and not to the set-up traffic.
func (n *Net) ResetPlan() {
	n.eligible = 0
	n.injected = 0
}

// Mark returns the current length of the log (for "requests since").
func (n *Net) Mark() int { return len(n.Log) }

// IsWrite reports whether the method changes state.
func IsWrite(method string) bool {
	switch strings.ToUpper(method) {
	case "GET", "HEAD", "OPTIONS":
		return false
	}
	return true
}
